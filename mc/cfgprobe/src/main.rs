//! Probe for C20: built once per build-time configuration of the subject.  The expected configuration
//! is passed on the command line (P MODE LOWER UPPER PADDING [small|full]); the probe compares every
//! default-context operation with its explicit counterpart / with the model instantiated with those values
//! and prints one JSON object on stdout.
use bigdecimal::{BigDecimal, Context, RoundingMode};
use num_bigint::BigInt;
use num_traits::{Signed, Zero};
use spec::numeral::recognise;
use spec::*;
use std::num::NonZeroU64;
use std::panic::{catch_unwind, AssertUnwindSafe};

fn rm(m: Mode) -> RoundingMode {
    match m {
        Mode::Up => RoundingMode::Up,
        Mode::Down => RoundingMode::Down,
        Mode::Ceiling => RoundingMode::Ceiling,
        Mode::Floor => RoundingMode::Floor,
        Mode::HalfUp => RoundingMode::HalfUp,
        Mode::HalfDown => RoundingMode::HalfDown,
        Mode::HalfEven => RoundingMode::HalfEven,
    }
}
fn mode_name(m: RoundingMode) -> &'static str {
    match m {
        RoundingMode::Up => "Up",
        RoundingMode::Down => "Down",
        RoundingMode::Ceiling => "Ceiling",
        RoundingMode::Floor => "Floor",
        RoundingMode::HalfUp => "HalfUp",
        RoundingMode::HalfDown => "HalfDown",
        RoundingMode::HalfEven => "HalfEven",
    }
}
fn bd(d: &Dec) -> BigDecimal {
    BigDecimal::new(d.n.clone(), d.s as i64)
}
fn dec(x: &BigDecimal) -> Dec {
    let (n, s) = x.as_bigint_and_exponent();
    Dec { n, s: s as i128 }
}

struct Out {
    checks: u64,
    violations: Vec<String>,
    per_site: std::collections::BTreeMap<String, usize>,
}
impl Out {
    fn bad(&mut self, site: &str, case: String, expected: String, observed: String) {
        // at most 6 recorded cases per site (so that every failing site is reported and can be replayed)
        let n = self.per_site.entry(site.to_string()).or_insert(0);
        *n += 1;
        if *n <= 6 && self.violations.len() < 200 {
            let esc = |s: &str| s.replace('\\', "\\\\").replace('"', "\\\"");
            self.violations.push(format!("{{\"site\":\"{}\",\"case\":\"{}\",\"expected\":\"{}\",\"observed\":\"{}\"}}", esc(site), esc(&case), esc(&expected), esc(&observed)));
        }
    }
}

/// formatting call on the subject; a panic inside the subject becomes an observation, not a crash of the probe
fn gfmt(f: impl FnOnce() -> String) -> String {
    match guard(f) {
        Ok(s) => s,
        Err(e) => format!("<panic: {}>", e),
    }
}

fn guard<T>(f: impl FnOnce() -> T) -> Result<T, String> {
    catch_unwind(AssertUnwindSafe(f)).map_err(|e| {
        if let Some(s) = e.downcast_ref::<&str>() {
            s.to_string()
        } else if let Some(s) = e.downcast_ref::<String>() {
            s.clone()
        } else {
            "panic".into()
        }
    })
}

/// Division under a configured precision p: the exact quotient when it has at most p significant digits;
/// otherwise, when the integer part of the quotient fits in p digits, the quotient rounded half-up to p
/// significant digits (compared by value: trailing zeros may or may not be stored); otherwise (integer part
/// longer than p digits) at least p digits, correctly rounded half-up at the result's own scale.
fn judge_div(a: &Dec, b: &Dec, r: &Dec, p: u64) -> Result<(), String> {
    if let Some(k) = terminating_digits(&a.n, &b.n) {
        if k <= p {
            // exactly representable
            let lhs = r.mul(b);
            return if cmp_val(&lhs.n, lhs.s, &a.n, a.s) == std::cmp::Ordering::Equal { Ok(()) } else { Err(format!("the exact quotient ({} digits)", k)) };
        }
    }
    // integer part of |a/b|
    let ip = {
        let (an, bn) = (a.n.abs(), b.n.abs());
        let sh = b.s - a.s;
        if sh >= 0 {
            (an * pow10(sh as u64)) / bn
        } else {
            an / (bn * pow10((-sh) as u64))
        }
    };
    let ip_digits = if ip.is_zero() { 0 } else { ndigits(&ip) };
    if ip_digits <= p {
        let want_p = div_rounded(a, b, p, Mode::HalfUp);
        return if r.eq_val(&want_p) { Ok(()) } else { Err(format!("{} (the quotient rounded to the configured {} significant digits)", want_p.show(), p)) };
    }
    // long integer part: rounded half-up at the result's own scale, at least p digits
    let e = r.s + b.s - a.s;
    let (mut num, mut den) = if e >= 0 { (&a.n * pow10(e as u64), b.n.clone()) } else { (a.n.clone(), &b.n * pow10((-e) as u64)) };
    if den.is_negative() {
        num = -num;
        den = -den;
    }
    let want = round_div(&num, &den, Mode::HalfUp);
    if r.n != want {
        return Err(format!("{}e{} (quotient rounded half-up at the result's scale)", want, -r.s));
    }
    if ndigits(&r.n) < p {
        return Err(format!("at least {} significant digits", p));
    }
    Ok(())
}

fn main() {
    let args: Vec<String> = std::env::args().collect();
    let p: u64 = args[1].parse().unwrap();
    let mode = Mode::from_name(&args[2]).unwrap();
    let lower: i128 = args[3].parse().unwrap();
    let upper: i128 = args[4].parse().unwrap();
    let padding: i128 = args[5].parse().unwrap();
    let full = args.get(6).map(|s| s == "full").unwrap_or(false);
    std::panic::set_hook(Box::new(|_| {}));
    let mut o = Out { checks: 0, violations: vec![], per_site: Default::default() };
    let explicit = Context::new(NonZeroU64::new(p).unwrap(), rm(mode));

    // 1. Context::default() reports the configured values
    o.checks += 2;
    let dc = Context::default();
    if dc.precision().get() != p {
        o.bad("Context::default().precision", "".into(), p.to_string(), dc.precision().get().to_string());
    }
    if mode_name(dc.rounding_mode()) != mode.name() {
        o.bad("Context::default().rounding_mode", "".into(), mode.name().into(), mode_name(dc.rounding_mode()).into());
    }
    o.checks += 1;
    if mode_name(RoundingMode::default()) != mode.name() {
        o.bad("RoundingMode::default", "".into(), mode.name().into(), mode_name(RoundingMode::default()).into());
    }

    // 2. sqrt / cbrt / inverse with implicit defaults equal their explicit-context forms, and the model
    let nmax: i64 = if full { 99 } else { 40 };
    for n in 1..=nmax {
        for s in -2i128..=2 {
            for sign in [1i64, -1] {
                let x = Dec::new(n * sign, s);
                let xb = bd(&x);
                if sign > 0 {
                    o.checks += 2;
                    match (guard(|| xb.sqrt()), guard(|| xb.sqrt_with_context(&explicit))) {
                        (Ok(Some(a)), Ok(Some(b))) => {
                            if dec(&a) != dec(&b) {
                                o.bad("sqrt() vs sqrt_with_context(configured)", x.show(), dec(&b).show(), dec(&a).show());
                            } else if !dec(&a).eq_val(&root_rounded(&x.n, x.s, 2, p, mode)) {
                                o.bad("sqrt() vs model", x.show(), root_rounded(&x.n, x.s, 2, p, mode).show(), dec(&a).show());
                            }
                        }
                        (a, b) => o.bad("sqrt()", x.show(), "Some".into(), format!("{:?} / {:?}", a.map(|v| v.is_some()), b.map(|v| v.is_some()))),
                    }
                }
                o.checks += 2;
                match (guard(|| xb.cbrt()), guard(|| xb.cbrt_with_context(&explicit))) {
                    (Ok(a), Ok(b)) => {
                        if dec(&a) != dec(&b) {
                            o.bad("cbrt() vs cbrt_with_context(configured)", x.show(), dec(&b).show(), dec(&a).show());
                        } else if !dec(&a).eq_val(&root_rounded(&x.n, x.s, 3, p, mode)) {
                            o.bad("cbrt() vs model", x.show(), root_rounded(&x.n, x.s, 3, p, mode).show(), dec(&a).show());
                        }
                    }
                    (a, b) => o.bad("cbrt()", x.show(), "a value".into(), format!("{:?} / {:?}", a.is_ok(), b.is_ok())),
                }
                o.checks += 1;
                match (guard(|| xb.inverse()), guard(|| xb.inverse_with_context(&explicit))) {
                    (Ok(a), Ok(b)) => {
                        if dec(&a) != dec(&b) {
                            o.bad("inverse() vs inverse_with_context(configured)", x.show(), dec(&b).show(), dec(&a).show());
                        }
                    }
                    (a, b) => o.bad("inverse()", x.show(), "a value".into(), format!("{:?} / {:?}", a.is_ok(), b.is_ok())),
                }
                // 3. round(k) = with_scale_round(k, configured mode), and the model
                for k in -2i64..=3 {
                    o.checks += 1;
                    match (guard(|| xb.round(k)), guard(|| xb.with_scale_round(k, rm(mode)))) {
                        (Ok(a), Ok(b)) => {
                            let want = Dec { n: round_to_scale(&x.n, x.s, k as i128, mode), s: k as i128 };
                            if dec(&a) != dec(&b) || dec(&a) != want {
                                o.bad("round(k) vs with_scale_round(k, configured)", format!("{} k={}", x.show(), k), want.show(), dec(&a).show());
                            }
                        }
                        _ => o.bad("round(k)", x.show(), "a value".into(), "panic".into()),
                    }
                }
            }
        }
    }

    // 4. division with the configured precision
    let dmax: i64 = if p <= 3 { if full { 999 } else { 200 } } else { 60 };
    for a in 1..=dmax {
        for b in 1..=dmax {
            o.checks += 1;
            let (da, db) = (Dec::new(a, 0), Dec::new(if (a + b) % 5 == 0 { -b } else { b }, if b % 3 == 0 { 1 } else { 0 }));
            match guard(|| bd(&da) / bd(&db)) {
                Ok(r) => {
                    if let Err(e) = judge_div(&da, &db, &dec(&r), p) {
                        o.bad("division", format!("{} / {}", da.show(), db.show()), e, dec(&r).show());
                    }
                }
                Err(e) => o.bad("division", format!("{} / {}", da.show(), db.show()), "a quotient".into(), e),
            }
        }
    }
    // quotients whose integer part is longer than the precision
    for (a, b) in [(201i64, 2i64), (100001, 3), (7, 3), (1, 7), (999999, 7)] {
        o.checks += 1;
        let (da, db) = (Dec::new(a, 0), Dec::new(b, 0));
        if let Ok(r) = guard(|| &bd(&da) / &bd(&db)) {
            if let Err(e) = judge_div(&da, &db, &dec(&r), p) {
                o.bad("division", format!("{} / {}", da.show(), db.show()), e, dec(&r).show());
            }
        }
    }

    // integer quotients next to a power of ten, every length 1..=40 (the digit count of the first integer
    // quotient decides how many more digits the loop produces)
    for k in 1..=40u64 {
        let p10 = pow10(k);
        for d in [1i64, 2, 0] {
            for b in [2i64, 3, 7] {
                for r in [1i64, b - 1] {
                    o.checks += 1;
                    let a = (&p10 - d) * b + r;
                    let (da, db) = (Dec { n: a, s: 0 }, Dec::new(b, 0));
                    match guard(|| &bd(&da) / &bd(&db)) {
                        Ok(res) => {
                            if let Err(e) = judge_div(&da, &db, &dec(&res), p) {
                                o.bad("division (integer quotient next to a power of ten)", format!("{} / {}", da.show(), db.show()), e, dec(&res).show());
                            }
                        }
                        Err(e) => o.bad("division", format!("{} / {}", da.show(), db.show()), "a quotient".into(), e),
                    }
                }
            }
        }
    }

    // long denominators (more digits than the precision + guard digits) with exact-tie and exact quotients
    if p <= 34 {
        let dens: Vec<BigInt> = vec!["12345678901234567890123".parse().unwrap(), "1234567890123456789013004".parse().unwrap(), "9999999999999999999999999999999999999999".parse().unwrap(), "1000000000000000000000000000000000000000000000000000000000000001".parse().unwrap()];
        let lo: BigInt = pow10(p); // 10^p .. : (p+1)-digit quotients
        for den in dens.iter() {
            let mut q: BigInt = lo.clone() + 5;
            let step: BigInt = if p <= 2 { BigInt::from(10) } else { (pow10(p) * 9) / 97 / 10 * 10 };
            let hi = pow10(p + 1);
            while q < hi {
                for (qq, label) in [(q.clone(), "tie"), (&q - 5, "exact"), (&q - 4, "just above"), (&q - 6, "just below")] {
                    o.checks += 1;
                    // b = den * 10^p, so the quotient q / 10^p is produced by the digit loop, not by the first division
                    let (da, db) = (Dec { n: &qq * den, s: 2 }, Dec { n: den * pow10(p), s: 0 });
                    match guard(|| &bd(&da) / &bd(&db)) {
                        Ok(r) => {
                            if let Err(e) = judge_div(&da, &db, &dec(&r), p) {
                                o.bad("division (long denominator)", format!("{} / {} ({})", da.show(), db.show(), label), e, dec(&r).show());
                            }
                        }
                        Err(e) => o.bad("division (long denominator)", format!("{} / {}", da.show(), db.show()), "a quotient".into(), e),
                    }
                }
                q += &step;
            }
        }
    }

    // 4c. near-integer quotients with long denominators: (k*d + 1) / d and (k*d - 1) / d: after the integer part a long
    // run of zeros (or nines) precedes the first significant fraction digit
    for d in [BigInt::from(3) * pow10(25), pow10(19) + 7, BigInt::from(7) * pow10(30) + 1, (BigInt::from(1) << 64usize) + 1] {
        for k in [1i64, 2, 7] {
            for e in [1i64, -1] {
                let da = Dec { n: &d * k + e, s: 0 };
                let db = Dec { n: d.clone(), s: 0 };
                o.checks += 1;
                match guard(|| bd(&da) / bd(&db)) {
                    Ok(r) => {
                        if let Err(e) = judge_div(&da, &db, &dec(&r), p) {
                            o.bad("division (near-integer quotient, long denominator)", format!("{} / {}", da.show(), db.show()), e, dec(&r).show());
                        }
                    }
                    Err(e) => o.bad("division", format!("{} / {}", da.show(), db.show()), "a quotient".into(), e),
                }
            }
        }
    }

    // 4d. EVERY small numerator over a denominator far longer than any configured precision (1301 digits, beyond
    // 64*64 bits): quotient digits beyond the precision are spread evenly, so a quotient worked out with g guard
    // digits too few is wrong for about one numerator in 10^g
    {
        let den: BigInt = format!("{}7", "1234567890".repeat(130)).parse().unwrap();
        let db = Dec { n: den, s: 3 };
        let xb = bd(&db);
        let nmax: i64 = if p <= 3 { 1500 } else { 4000 };
        for a in 1..=nmax {
            o.checks += 1;
            let da = Dec::new(if a % 7 == 0 { -a } else { a }, 0);
            match guard(|| &bd(&da) / &xb) {
                Ok(r) => {
                    if let Err(e) = judge_div(&da, &db, &dec(&r), p) {
                        o.bad("division (small numerator, 1301-digit denominator)", format!("{} / {}", da.show(), db.show()), e, dec(&r).show());
                    }
                }
                Err(e) => o.bad("division", format!("{} / {}", da.show(), db.show()), "a quotient".into(), e),
            }
        }
    }

    // 5. exp delivers the configured number of digits
    let mut exp_args: Vec<Dec> = vec![Dec::new(1, 0), Dec::new(-1, 0), Dec::new(5, 1), Dec::new(-5, 1), Dec::new(10, 0), Dec::new(1, 30), Dec::new(-3, 0)];
    // arguments so small that e^x rounds to 1 at the configured precision, on both sides of every guard-digit count
    // the series uses (the result must still have at most P digits), both signs
    for d in [0i128, 1, 3, 4, 5, 6, 7, 12, 17, 18, 20, 100] {
        for m in [1i64, -1, 5, -5] {
            exp_args.push(Dec::new(m, p as i128 + d));
        }
    }
    for x in exp_args {
        o.checks += 1;
        match guard(|| bd(&x).exp()) {
            Ok(r) => {
                let r = dec(&r);
                // the configured number of digits: never more; fewer only when the missing trailing digits are
                // zeros, which the one-unit accuracy check at the P-th digit below decides
                if ndigits(&r.n) > p {
                    o.bad("exp digits", x.show(), format!("{} significant digits", p), format!("{} ({} digits)", r.show(), ndigits(&r.n)));
                }
                if !r.n.is_positive() {
                    o.bad("exp sign", x.show(), "positive".into(), r.show());
                }
                // value within one unit of the p-th digit
                {
                    let enc = spec::exp::exp_bounds(&x.n, x.s, p.max(20));
                    let lo = Dec { n: enc.lo.clone(), s: enc.f as i128 };
                    let hi = Dec { n: enc.hi.clone(), s: enc.f as i128 };
                    let e = (ndigits(&lo.n) as i128 - 1 - lo.s).max(ndigits(&r.n) as i128 - 1 - r.s);
                    let unit = Dec { n: BigInt::from(1), s: -(e - p as i128 + 1) };
                    let (l, h) = (lo.sub(&unit), hi.add(&unit));
                    if cmp_val(&r.n, r.s, &l.n, l.s) == std::cmp::Ordering::Less || cmp_val(&r.n, r.s, &h.n, h.s) == std::cmp::Ordering::Greater {
                        o.bad("exp value", x.show(), format!("within one unit of digit {}", p), r.show());
                    }
                }
            }
            Err(e) => o.bad("exp", x.show(), "a value".into(), e),
        }
    }

    // 6. Display switches notation exactly at the configured zero counts
    for digits in ["1", "15", "123", "9999"] {
        let n: BigInt = digits.parse().unwrap();
        let len = digits.len() as i128;
        for z in 0..=(lower.max(upper) + 3) {
            for sign in [1, -1] {
                // 0.000ddd with z zeros after the point
                let x = Dec { n: &n * sign, s: len + z };
                o.checks += 1;
                let t = gfmt(|| format!("{}", bd(&x)));
                let has_exp = t.contains('e') || t.contains('E');
                if has_exp != (z > lower) {
                    o.bad("Display leading-zero threshold", x.show(), format!("exponent form: {}", z > lower), t.clone());
                }
                if recognise(&t).and_then(|m| m.to_dec()).map(|v| v == x) != Some(true) {
                    o.bad("Display round trip", x.show(), x.show(), t);
                }
                // ddd000 with z trailing zeros
                let y = Dec { n: &n * sign, s: -z };
                o.checks += 1;
                let t = gfmt(|| format!("{}", bd(&y)));
                let has_exp = t.contains('e') || t.contains('E');
                if has_exp != (z > upper) {
                    o.bad("Display trailing-zero threshold", y.show(), format!("exponent form: {}", z > upper), t.clone());
                }
                if recognise(&t).and_then(|m| m.to_dec()).map(|v| v.eq_val(&y)) != Some(true) {
                    o.bad("Display round trip", y.show(), y.show(), t);
                }
                let t = gfmt(|| format!("{}", bd(&y).to_ref()));
                if (t.contains('e') || t.contains('E')) != (z > upper) {
                    o.bad("Display (ref) trailing-zero threshold", y.show(), format!("exponent form: {}", z > upper), t);
                }
            }
        }
    }

    // 7. {:.N} rounds with the configured mode; {:.Ne} likewise
    let fmax: i64 = if full { 999 } else { 250 };
    for n in 0..=fmax {
        for s in 0i128..=4 {
            for sign in [1i64, -1] {
                if n == 0 && sign < 0 {
                    continue;
                }
                let x = Dec::new(n * sign, s);
                let xb = bd(&x);
                for prec in 0usize..=4 {
                    o.checks += 1;
                    let t = gfmt(|| format!("{:.*}", prec, xb));
                    let want = Dec { n: round_to_scale(&x.n, x.s, prec as i128, mode), s: prec as i128 };
                    // an integer (scale 0) is only padded when the padding stays within the configured limit (see 8.)
                    let may_be_unpadded = x.s == 0 && prec as i128 > padding - 1;
                    match recognise(&t) {
                        Some(m) if m.exp.is_none() && m.frac_digits.len() == prec && m.to_dec().map(|v| v.eq_val(&want)) == Some(true) => {}
                        Some(m) if may_be_unpadded && m.to_dec().map(|v| v.eq_val(&x)) == Some(true) => {}
                        _ => o.bad("{:.N} rounding", format!("{} N={}", x.show(), prec), want.show(), t),
                    }
                    if n % 7 == 0 {
                        o.checks += 1;
                        let t = gfmt(|| format!("{:.*e}", prec, xb));
                        let want = round_to_prec(&x.n, x.s, prec as u64 + 1, mode);
                        match recognise(&t) {
                            Some(m) if m.exp.is_some() && m.frac_digits.len() == prec && m.to_dec().map(|v| v.eq_val(&want)) == Some(true) => {}
                            _ => o.bad("{:.Ne} rounding", format!("{} N={}", x.show(), prec), want.show(), t),
                        }
                    }
                }
            }
        }
    }

    // 7b. the same with long dropped digit strings of every decision shape (00..01, 10..01, 49..9, 50..0, 50..01,
    // 9..9): the configured mode must see every dropped digit, however far behind the rounding position
    let long_ls: Vec<usize> = if full { (2..=70).chain([100, 127, 128, 129, 151, 200, 257, 500, 1100]).collect() } else { vec![2, 3, 8, 9, 17, 18, 19, 20, 31, 32, 33, 34, 40, 63, 64, 65, 66, 100, 129, 151, 200, 257, 500] };
    for &l in long_ls.iter() {
        let mk = |first: char, mid: char, last: char| -> String { (0..l).map(|i| if i == 0 { first } else if i == l - 1 { last } else { mid }).collect() };
        for tail in [mk('0', '0', '1'), mk('1', '0', '1'), mk('4', '9', '9'), mk('5', '0', '0'), mk('5', '0', '1'), mk('9', '9', '9'), mk('0', '0', '0')] {
            for (head, sign) in [("2", 1i64), ("7", -1), ("12", 1), ("99", -1)] {
                let n: BigInt = format!("{}{}", head, tail).parse::<BigInt>().unwrap() * sign;
                for keep in [0usize, 1] {
                    // `keep` fraction digits of the head stay, the tail is dropped
                    if keep >= head.len() + 1 {
                        continue;
                    }
                    let x = Dec { n: n.clone(), s: (l + keep) as i128 };
                    let xb = bd(&x);
                    o.checks += 1;
                    let t = gfmt(|| format!("{:.*}", keep, xb));
                    let want = Dec { n: round_to_scale(&x.n, x.s, keep as i128, mode), s: keep as i128 };
                    match recognise(&t) {
                        Some(m) if m.exp.is_none() && m.frac_digits.len() == keep && m.to_dec().map(|v| v.eq_val(&want)) == Some(true) => {}
                        _ => o.bad("{:.N} rounding (long dropped tail)", format!("{} N={}", x.show(), keep), want.show(), t),
                    }
                    o.checks += 1;
                    let sig = head.len();
                    let t = gfmt(|| format!("{:.*e}", sig - 1, xb));
                    let want = round_to_prec(&x.n, x.s, sig as u64, mode);
                    match recognise(&t) {
                        Some(m) if m.exp.is_some() && m.frac_digits.len() == sig - 1 && m.to_dec().map(|v| v.eq_val(&want)) == Some(true) => {}
                        _ => o.bad("{:.Ne} rounding (long dropped tail)", format!("{} N={}", x.show(), sig - 1), want.show(), t),
                    }
                }
            }
        }
    }

    // 7c. carries through runs of nines of every length behind a non-nine digit ({:.N} and {:.Ne})
    let rmax: usize = if full { 70 } else { 40 };
    for r in 1..=rmax {
        for (pre, last) in [("1", "6"), ("12", "96"), ("", "5"), ("3", "51")] {
            let digits = format!("{}{}{}", pre, "9".repeat(r), last);
            let n: BigInt = digits.parse().unwrap();
            for sign in [1i64, -1] {
              // round right behind the run of nines: prefix as the integer part, and everything behind the point
              for frac_prefix in [false, true] {
                if frac_prefix && pre.is_empty() {
                    continue;
                }
                let frac = (r + last.len() + if frac_prefix { pre.len() } else { 0 }) as i128;
                let x = Dec { n: &n * sign, s: frac };
                let xb = bd(&x);
                let keep = r + if frac_prefix { pre.len() } else { 0 };
                o.checks += 1;
                let t = gfmt(|| format!("{:.*}", keep, xb));
                let want = Dec { n: round_to_scale(&x.n, x.s, keep as i128, mode), s: keep as i128 };
                match recognise(&t) {
                    Some(m) if m.exp.is_none() && m.frac_digits.len() == keep && m.to_dec().map(|v| v.eq_val(&want)) == Some(true) => {}
                    _ => o.bad("{:.N} rounding (carry chain)", format!("{} N={}", x.show(), keep), want.show(), t),
                }
                let sig = pre.len() + r;
                if sig >= 1 {
                    o.checks += 1;
                    let t = gfmt(|| format!("{:.*e}", sig - 1, xb));
                    let want = round_to_prec(&x.n, x.s, sig as u64, mode);
                    match recognise(&t) {
                        Some(m) if m.exp.is_some() && m.frac_digits.len() == sig - 1 && m.to_dec().map(|v| v.eq_val(&want)) == Some(true) => {}
                        _ => o.bad("{:.Ne} rounding (carry chain)", format!("{} N={}", x.show(), sig - 1), want.show(), t),
                    }
                }
              }
            }
        }
    }

    // 8. integer padding applied iff the padding does not exceed the configured limit
    for z in 0..=(padding + 3).min(1100) {
        if padding > 20 && z > 4 && z < padding - 4 {
            continue;
        }
        for prec in [0usize, 1, 2, (padding.max(2) - 2) as usize, (padding.max(1) - 1) as usize, padding as usize, padding as usize + 1] {
            for n in [1i64, -42] {
                let x = Dec::new(n, -z);
                o.checks += 1;
                let t = gfmt(|| format!("{:.*}", prec, bd(&x)));
                let zeros = z + prec as i128;
                let total = zeros + if prec > 0 { 1 } else { 0 };
                let m = match recognise(&t) {
                    Some(m) => m,
                    None => {
                        o.bad("{:.N} integer padding", format!("{} N={}", x.show(), prec), "a numeral".into(), t);
                        continue;
                    }
                };
                if m.to_dec().map(|v| v.eq_val(&x)) != Some(true) {
                    o.bad("{:.N} integer padding", format!("{} N={}", x.show(), prec), "the exact value".into(), t);
                    continue;
                }
                let padded = m.exp.is_none() && m.frac_digits.len() == prec;
                if total <= padding && !padded {
                    o.bad("{:.N} integer padding", format!("{} N={}", x.show(), prec), format!("padded ({} <= limit {})", total, padding), t);
                } else if zeros > padding && padded && zeros > 0 {
                    o.bad("{:.N} integer padding", format!("{} N={}", x.show(), prec), format!("unpadded ({} > limit {})", zeros, padding), format!("{} chars", t.len()));
                }
            }
        }
    }

    println!("{{\"checks\":{},\"violations\":[{}]}}", o.checks, o.violations.join(","));
}
