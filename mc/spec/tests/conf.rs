#[test]
fn conformance() { assert!(spec::conformance::run() > 50); }
