//! Independent expectations for the model: `vectors.txt` is produced by tools/gen_model_vectors.py with
//! Python's `decimal` module (libmpdec), `fractions` and `struct` - implementations unrelated to num-bigint,
//! to this model and to the subject.  Every record is replayed through the MODEL before the model is allowed
//! to judge anything; a mismatch is a machinery error, never a verdict.

use crate::exp::exp_bounds;
use crate::float::{decode_f32, decode_f64, exact_value};
use crate::*;
use std::cmp::Ordering;

const VECTORS: &str = include_str!("vectors.txt");

fn bi(s: &str) -> BigInt {
    s.parse().unwrap_or_else(|_| panic!("bad integer in vectors.txt: {}", s))
}
fn i(s: &str) -> i128 {
    s.parse().unwrap_or_else(|_| panic!("bad number in vectors.txt: {}", s))
}

/// returns the number of records checked
pub fn run() -> usize {
    let mut n = 0usize;
    for line in VECTORS.lines() {
        let f: Vec<&str> = line.split('|').collect();
        match f[0] {
            "S" => {
                let mode = Mode::from_name(f[4]).unwrap();
                let got = round_to_scale(&bi(f[1]), i(f[2]), i(f[3]), mode);
                assert_eq!(got, bi(f[5]), "vector {}", line);
            }
            "P" => {
                let mode = Mode::from_name(f[4]).unwrap();
                let got = round_to_prec(&bi(f[1]), i(f[2]), i(f[3]) as u64, mode);
                let want = Dec { n: bi(f[5]), s: i(f[6]) };
                assert!(got.eq_val(&want), "vector {} model {}", line, got.show());
            }
            "D" => {
                let mode = Mode::from_name(f[6]).unwrap();
                let a = Dec { n: bi(f[1]), s: i(f[2]) };
                let b = Dec { n: bi(f[3]), s: i(f[4]) };
                let got = div_rounded(&a, &b, i(f[5]) as u64, mode);
                let want = Dec { n: bi(f[7]), s: i(f[8]) };
                assert!(got.eq_val(&want), "vector {} model {}", line, got.show());
            }
            "R" => {
                let mode = Mode::from_name(f[5]).unwrap();
                let got = root_rounded(&bi(f[2]), i(f[3]), i(f[1]) as u32, i(f[4]) as u64, mode);
                let want = Dec { n: bi(f[6]), s: i(f[7]) };
                assert!(got.eq_val(&want), "vector {} model {}", line, got.show());
            }
            "E" => {
                // v = e^x correctly rounded to 130 digits: it must lie within one unit of its 129th digit of the
                // enclosure computed for 100 significant digits
                let enc = exp_bounds(&bi(f[1]), i(f[2]), 100);
                let v = Dec { n: bi(f[3]), s: i(f[4]) };
                let unit = Dec { n: BigInt::from(10), s: v.s };
                let (lo, hi) = (Dec { n: enc.lo.clone(), s: enc.f as i128 }, Dec { n: enc.hi.clone(), s: enc.f as i128 });
                let (vlo, vhi) = (v.sub(&unit), v.add(&unit));
                assert!(cmp_val(&vhi.n, vhi.s, &lo.n, lo.s) != Ordering::Less && cmp_val(&vlo.n, vlo.s, &hi.n, hi.s) != Ordering::Greater, "vector {} enclosure [{}, {}]", line, lo.show(), hi.show());
            }
            "F" => {
                let fl = if f[1] == "64" { decode_f64(f[2].parse().unwrap()) } else { decode_f32(f[2].parse().unwrap()) };
                let got = exact_value(&fl).unwrap_or_else(|| panic!("vector {}: not finite", line));
                let want = Dec { n: bi(f[3]), s: i(f[4]) };
                assert!(got.eq_val(&want), "vector {} model {}", line, got.show());
            }
            "C" => {
                let got = cmp_val(&bi(f[1]), i(f[2]), &bi(f[3]), i(f[4]));
                let want = match f[5] {
                    "-1" => Ordering::Less,
                    "0" => Ordering::Equal,
                    _ => Ordering::Greater,
                };
                assert_eq!(got, want, "vector {}", line);
            }
            other => panic!("unknown record kind {} in vectors.txt", other),
        }
        n += 1;
    }
    n
}

#[cfg(test)]
mod tests {
    #[test]
    fn all_vectors_hold() {
        assert!(super::run() > 30_000);
    }
}
