//! The numeral grammar of C05 as a deterministic automaton plus a denotation function.
//!
//! States: Start, Sign, Int, DotNoDigit, Frac, E, ESign, EDigits (+ the implicit reject sink).
//! '_' is allowed only once a digit of the numeral has been seen, and never in the exponent.

use crate::Dec;
use num_bigint::BigInt;
use num_traits::Zero;

#[derive(Clone, Copy, PartialEq, Eq, Debug)]
enum St {
    Start,
    Sign,
    Int,
    DotNoDigit,
    Frac,
    E,
    ESign,
    EDigits,
}

/// Structural parse of an accepted numeral
#[derive(Clone, Debug, PartialEq, Eq)]
pub struct Numeral {
    pub neg: bool,
    pub explicit_plus: bool,
    /// mantissa digits before the point, '_' removed
    pub int_digits: String,
    /// mantissa digits after the point, '_' removed
    pub frac_digits: String,
    pub has_point: bool,
    /// exponent as written (None when there is no exponent part)
    pub exp: Option<BigInt>,
    /// the exponent marker, 'e' or 'E'
    pub exp_char: Option<char>,
    pub had_underscore: bool,
}

impl Numeral {
    /// unscaled integer and scale (fraction digits - exponent), scale as BigInt-exact i128 when it fits
    pub fn denote(&self) -> (BigInt, BigInt) {
        let mut all = String::with_capacity(self.int_digits.len() + self.frac_digits.len());
        all.push_str(&self.int_digits);
        all.push_str(&self.frac_digits);
        let mut n: BigInt = all.parse().unwrap();
        if self.neg {
            n = -n;
        }
        let scale = BigInt::from(self.frac_digits.len()) - self.exp.clone().unwrap_or_else(BigInt::zero);
        (n, scale)
    }
    /// Denotation as a model decimal; None if the scale does not fit the subject's 64-bit scale
    pub fn to_dec(&self) -> Option<Dec> {
        let (n, scale) = self.denote();
        let lo = BigInt::from(i64::MIN);
        let hi = BigInt::from(i64::MAX);
        if scale < lo || scale > hi {
            return None;
        }
        let s: i128 = scale.to_string().parse().unwrap();
        Some(Dec { n, s })
    }
}

/// Run the automaton.  None = rejected.
pub fn recognise(s: &str) -> Option<Numeral> {
    let mut st = St::Start;
    let mut num = Numeral {
        neg: false,
        explicit_plus: false,
        int_digits: String::new(),
        frac_digits: String::new(),
        has_point: false,
        exp: None,
        exp_char: None,
        had_underscore: false,
    };
    let mut exp_neg = false;
    let mut exp_digits = String::new();
    for c in s.chars() {
        st = match (st, c) {
            (St::Start, '+') => {
                num.explicit_plus = true;
                St::Sign
            }
            (St::Start, '-') => {
                num.neg = true;
                St::Sign
            }
            (St::Start, '0'..='9') | (St::Sign, '0'..='9') | (St::Int, '0'..='9') => {
                num.int_digits.push(c);
                St::Int
            }
            (St::Int, '_') => {
                num.had_underscore = true;
                St::Int
            }
            (St::Start, '.') | (St::Sign, '.') => {
                num.has_point = true;
                St::DotNoDigit
            }
            (St::Int, '.') => {
                num.has_point = true;
                St::Frac
            }
            (St::DotNoDigit, '0'..='9') | (St::Frac, '0'..='9') => {
                num.frac_digits.push(c);
                St::Frac
            }
            (St::Frac, '_') => {
                num.had_underscore = true;
                St::Frac
            }
            (St::Int, 'e') | (St::Int, 'E') | (St::Frac, 'e') | (St::Frac, 'E') => {
                num.exp_char = Some(c);
                St::E
            }
            (St::E, '+') => St::ESign,
            (St::E, '-') => {
                exp_neg = true;
                St::ESign
            }
            (St::E, '0'..='9') | (St::ESign, '0'..='9') | (St::EDigits, '0'..='9') => {
                exp_digits.push(c);
                St::EDigits
            }
            _ => return None,
        };
    }
    match st {
        St::Int | St::Frac => {}
        St::EDigits => {
            let mut e: BigInt = exp_digits.parse().unwrap();
            if exp_neg {
                e = -e;
            }
            num.exp = Some(e);
        }
        _ => return None,
    }
    Some(num)
}

/// Expected outcome of the subject's parser on `s`: Some(decimal) when it must accept, None when it
/// must return an error value (not a numeral, or the scale leaves the 64-bit range).
pub fn expected_parse(s: &str) -> Option<Dec> {
    recognise(s).and_then(|n| n.to_dec())
}

#[cfg(test)]
mod tests {
    use super::*;
    #[test]
    fn grammar() {
        for ok in ["1", "-1", "+1", "1.", ".5", "-.5", "1.5e3", "1_0", "1._5", "1_.5e-3", "1E+5", "0e9223372036854775807", "1.5_", "1.e5"] {
            assert!(expected_parse(ok).is_some(), "{}", ok);
        }
        for bad in ["", ".", "-", "+", "_1", "._5", "-_1", "1e", "1e+", "1e_5", "1e5_", "e5", ".e5", "1.5.5", "1e5e5", ".+5", ".-5", "+-1", "--1", " 1", "1 ", "1x", "0x1", "1e9223372036854775809", "٣"] {
            assert!(expected_parse(bad).is_none(), "{}", bad);
        }
        let d = expected_parse("-1_2.3_4e-2").unwrap();
        assert_eq!(d.show(), "-1234e-4");
        let d = expected_parse("1e-9223372036854775807").unwrap();
        assert_eq!(d.s, i64::MAX as i128);
        assert!(expected_parse("1.0e-9223372036854775807").is_none());
        assert_eq!(expected_parse("1e9223372036854775808").unwrap().s, i64::MIN as i128);
        assert!(expected_parse("1e9223372036854775809").is_none());
        assert_eq!(expected_parse("1.0e9223372036854775809").unwrap().s, i64::MIN as i128);
        assert!(expected_parse("1.0e9223372036854775810").is_none());
        assert_eq!(expected_parse("1.0e9223372036854775808").unwrap().s, -(i64::MAX as i128));
    }
}
