//! Binary floats decoded from their bit patterns by the model itself.

use crate::Dec;
use num_bigint::BigInt;
use num_traits::{One, Zero};

#[derive(Clone, Debug, PartialEq, Eq)]
pub enum Fl {
    Nan,
    Inf { neg: bool },
    /// (-1)^neg * m * 2^e
    Finite { neg: bool, m: u64, e: i32 },
}

pub fn decode_f32(bits: u32) -> Fl {
    let neg = bits >> 31 == 1;
    let ef = ((bits >> 23) & 0xff) as i32;
    let frac = (bits & 0x7f_ffff) as u64;
    if ef == 0xff {
        return if frac == 0 { Fl::Inf { neg } } else { Fl::Nan };
    }
    if ef == 0 {
        Fl::Finite { neg, m: frac, e: -126 - 23 }
    } else {
        Fl::Finite { neg, m: frac | (1 << 23), e: ef - 127 - 23 }
    }
}

pub fn decode_f64(bits: u64) -> Fl {
    let neg = bits >> 63 == 1;
    let ef = ((bits >> 52) & 0x7ff) as i32;
    let frac = bits & 0xf_ffff_ffff_ffff;
    if ef == 0x7ff {
        return if frac == 0 { Fl::Inf { neg } } else { Fl::Nan };
    }
    if ef == 0 {
        Fl::Finite { neg, m: frac, e: -1022 - 52 }
    } else {
        Fl::Finite { neg, m: frac | (1 << 52), e: ef - 1023 - 52 }
    }
}

fn pow_small(base: u32, k: u32) -> BigInt {
    let mut r = BigInt::one();
    let b = BigInt::from(base);
    for _ in 0..k {
        r *= &b;
    }
    r
}

/// exact decimal value of a finite float: m*2^e = m*5^-e * 10^e for e < 0
pub fn exact_value(fl: &Fl) -> Option<Dec> {
    match fl {
        Fl::Finite { neg, m, e } => {
            let mut n = BigInt::from(*m);
            let s;
            if *e >= 0 {
                n <<= *e as usize;
                s = 0;
            } else {
                n *= pow_small(5, (-*e) as u32);
                s = (-*e) as i128;
            }
            if *neg {
                n = -n;
            }
            if n.is_zero() {
                return Some(Dec { n, s: 0 });
            }
            Some(Dec { n, s })
        }
        _ => None,
    }
}

/// 2^k as a BigInt (k >= 0)
pub fn two_pow(k: u32) -> BigInt {
    BigInt::one() << k as usize
}

/// largest finite f64 as an exact integer: (2^53 - 1) * 2^971
pub fn f64_max() -> BigInt {
    (two_pow(53) - 1) << 971usize
}
