//! Reference model for the bigdecimal-rs properties C01..C20.
//!
//! Pure functions over exact integers (num-bigint).  This crate has NO dependency on the subject
//! (bigdecimal): powers of ten are built from strings, digit counts are string lengths, rounding is
//! one div_rem and a comparison of 2r with the divisor.  Roots are *certified* (r^k <= X < (r+1)^k is
//! asserted on every call) rather than trusted.

pub mod exp;
pub mod float;
pub mod numeral;
pub mod conformance;
pub mod vectors;

pub use num_bigint::{BigInt, BigUint, Sign};
use num_integer::Integer;
use num_traits::{One, Signed, Zero};
use std::cmp::Ordering;

/// The seven rounding modes of the subject, restated.
#[derive(Clone, Copy, Debug, PartialEq, Eq, Hash, PartialOrd, Ord)]
pub enum Mode {
    Up,
    Down,
    Ceiling,
    Floor,
    HalfUp,
    HalfDown,
    HalfEven,
}
pub const MODES: [Mode; 7] = [Mode::Up, Mode::Down, Mode::Ceiling, Mode::Floor, Mode::HalfUp, Mode::HalfDown, Mode::HalfEven];

impl Mode {
    pub fn name(self) -> &'static str {
        match self {
            Mode::Up => "Up",
            Mode::Down => "Down",
            Mode::Ceiling => "Ceiling",
            Mode::Floor => "Floor",
            Mode::HalfUp => "HalfUp",
            Mode::HalfDown => "HalfDown",
            Mode::HalfEven => "HalfEven",
        }
    }
    pub fn from_name(s: &str) -> Option<Mode> {
        MODES.iter().copied().find(|m| m.name() == s)
    }
    /// the mode m' with round(-x, m) = -round(x, m')
    pub fn mirror(self) -> Mode {
        match self {
            Mode::Ceiling => Mode::Floor,
            Mode::Floor => Mode::Ceiling,
            m => m,
        }
    }
}

/// 10^k built from its decimal spelling (shares nothing with the subject's three algorithms)
pub fn pow10(k: u64) -> BigInt {
    let mut s = String::with_capacity(k as usize + 1);
    s.push('1');
    for _ in 0..k {
        s.push('0');
    }
    s.parse().unwrap()
}

/// number of decimal digits of |n|; 1 for zero
pub fn ndigits(n: &BigInt) -> u64 {
    if n.is_zero() {
        1
    } else {
        n.magnitude().to_str_radix(10).len() as u64
    }
}

/// number of trailing zero decimal digits of n (0 for zero)
pub fn trailing_zeros10(n: &BigInt) -> u64 {
    if n.is_zero() {
        return 0;
    }
    let s = n.magnitude().to_str_radix(10);
    (s.len() - s.trim_end_matches('0').len()) as u64
}

/// A decimal of the model: value = n * 10^-s.  Scale kept in i128 so the model never overflows
/// where the subject's i64 might.
#[derive(Clone, Debug, PartialEq, Eq, Hash)]
pub struct Dec {
    pub n: BigInt,
    pub s: i128,
}

impl Dec {
    pub fn new<T: Into<BigInt>>(n: T, s: i128) -> Dec {
        Dec { n: n.into(), s }
    }
    /// canonical form: no trailing zero digit; zero is (0,0)
    pub fn norm(&self) -> Dec {
        if self.n.is_zero() {
            return Dec { n: BigInt::zero(), s: 0 };
        }
        let tz = trailing_zeros10(&self.n);
        if tz == 0 {
            return self.clone();
        }
        Dec { n: &self.n / pow10(tz), s: self.s - tz as i128 }
    }
    pub fn neg(&self) -> Dec {
        Dec { n: -self.n.clone(), s: self.s }
    }
    pub fn add(&self, o: &Dec) -> Dec {
        let s = self.s.max(o.s);
        Dec { n: &self.n * pow10((s - self.s) as u64) + &o.n * pow10((s - o.s) as u64), s }
    }
    pub fn sub(&self, o: &Dec) -> Dec {
        self.add(&o.neg())
    }
    pub fn mul(&self, o: &Dec) -> Dec {
        Dec { n: &self.n * &o.n, s: self.s + o.s }
    }
    pub fn eq_val(&self, o: &Dec) -> bool {
        cmp_val(&self.n, self.s, &o.n, o.s) == Ordering::Equal
    }
    /// "<int>e<exp>"  (exp = -scale)
    pub fn show(&self) -> String {
        format!("{}e{}", self.n, -self.s)
    }
    pub fn parse(txt: &str) -> Option<Dec> {
        let (a, b) = txt.split_once('e')?;
        Some(Dec { n: a.parse().ok()?, s: -(b.parse::<i128>().ok()?) })
    }
}

fn sign_i(n: &BigInt) -> i32 {
    match n.sign() {
        Sign::Minus => -1,
        Sign::NoSign => 0,
        Sign::Plus => 1,
    }
}

/// compare n1*10^-s1 with n2*10^-s2 as real numbers; never allocates more than the operands' own
/// size times a small constant unless the scale gap is small
pub fn cmp_val(n1: &BigInt, s1: i128, n2: &BigInt, s2: i128) -> Ordering {
    let (g1, g2) = (sign_i(n1), sign_i(n2));
    if g1 != g2 {
        return g1.cmp(&g2);
    }
    if g1 == 0 {
        return Ordering::Equal;
    }
    // same non-zero sign: compare magnitudes, flip for negatives
    let m = cmp_mag(n1, s1, n2, s2);
    if g1 < 0 {
        m.reverse()
    } else {
        m
    }
}

fn cmp_mag(n1: &BigInt, s1: i128, n2: &BigInt, s2: i128) -> Ordering {
    // adjusted exponent of the leading digit: digits - scale
    let e1 = ndigits(n1) as i128 - s1;
    let e2 = ndigits(n2) as i128 - s2;
    if e1 != e2 {
        return e1.cmp(&e2);
    }
    // same leading-digit position: the gap is bounded by the digit counts; align exactly
    let (a, b) = (n1.abs(), n2.abs());
    if s1 == s2 {
        a.cmp(&b)
    } else if s1 > s2 {
        a.cmp(&(b * pow10((s1 - s2) as u64)))
    } else {
        (a * pow10((s2 - s1) as u64)).cmp(&b)
    }
}

/// round n/d to an integer under `mode`; d > 0
pub fn round_div(n: &BigInt, d: &BigInt, mode: Mode) -> BigInt {
    assert!(d.is_positive());
    let neg = n.is_negative();
    let a = n.abs();
    let (q, r) = a.div_rem(d);
    let up = if r.is_zero() {
        false
    } else {
        let twice = &r * 2;
        match mode {
            Mode::Up => true,
            Mode::Down => false,
            Mode::Ceiling => !neg,
            Mode::Floor => neg,
            Mode::HalfUp => twice >= *d,
            Mode::HalfDown => twice > *d,
            Mode::HalfEven => twice > *d || (twice == *d && q.is_odd()),
        }
    };
    let m = if up { q + 1 } else { q };
    if neg {
        -m
    } else {
        m
    }
}

/// value n*10^-s expressed at scale t (rounded when t < s); returns the unscaled integer
pub fn round_to_scale(n: &BigInt, s: i128, t: i128, mode: Mode) -> BigInt {
    if t >= s {
        n * pow10((t - s) as u64)
    } else {
        round_div(n, &pow10((s - t) as u64), mode)
    }
}

/// value rounded at its p-th significant digit; returns a Dec with *some* representation of the
/// rounded value (callers compare by value) and additionally guarantees: if the input is non-zero the
/// returned unscaled integer has exactly p digits, except when rounding carried into a new digit in
/// which case it has p+1 digits ending in 0 — normalise with `exactly_p_digits` if needed.
pub fn round_to_prec(n: &BigInt, s: i128, p: u64, mode: Mode) -> Dec {
    assert!(p >= 1);
    if n.is_zero() {
        return Dec { n: BigInt::zero(), s };
    }
    let d = ndigits(n);
    let t = s - d as i128 + p as i128; // scale at which the value has p digits
    Dec { n: round_to_scale(n, s, t, mode), s: t }
}

/// Re-express a p-or-(p+1)-digit result of `round_to_prec` with exactly p digits
pub fn exactly_p_digits(d: &Dec, p: u64) -> Dec {
    if d.n.is_zero() {
        return d.clone();
    }
    let k = ndigits(&d.n);
    if k == p {
        d.clone()
    } else {
        assert!(k == p + 1 && (&d.n % 10u8).is_zero(), "unexpected digit count {} for p={}", k, p);
        Dec { n: &d.n / 10, s: d.s - 1 }
    }
}

// ---------------------------------------------------------------------------------------------
// certified integer roots

pub fn isqrt(x: &BigUint) -> BigUint {
    if x.is_zero() {
        return BigUint::zero();
    }
    let mut r = BigUint::one() << ((x.bits() + 1) / 2) as usize;
    loop {
        let nr = (&r + x / &r) >> 1;
        if nr >= r {
            break;
        }
        r = nr;
    }
    let r1 = &r + 1u32;
    assert!(&r * &r <= *x && &r1 * &r1 > *x, "isqrt certificate failed");
    r
}

pub fn icbrt(x: &BigUint) -> BigUint {
    if x.is_zero() {
        return BigUint::zero();
    }
    let mut r = BigUint::one() << ((x.bits() + 2) / 3) as usize;
    loop {
        let nr = (&r * 2u32 + x / (&r * &r)) / 3u32;
        if nr >= r {
            break;
        }
        r = nr;
    }
    let r1 = &r + 1u32;
    assert!(&r * &r * &r <= *x && &r1 * &r1 * &r1 > *x, "icbrt certificate failed");
    r
}

fn upow(x: &BigUint, k: u32) -> BigUint {
    let mut r = BigUint::one();
    for _ in 0..k {
        r *= x;
    }
    r
}

/// The real k-th root (k = 2 or 3) of |n|*10^-s, correctly rounded to p significant digits under
/// `mode`, sign of n re-applied (for k = 3; for k = 2 n must be >= 0).  Returned with exactly p
/// digits unless the value is zero.
///
/// Method: choose the scale t of the result so that root has p digits: scale the radicand to an
/// integer X = |x| * 10^(k*t) (exact, by making k*t >= s; otherwise use a rational comparison),
/// r = floor(root_k(X)), exact iff r^k == X, position relative to the midpoint from
/// (2r+1)^k vs 2^k X.
pub fn root_rounded(n: &BigInt, s: i128, k: u32, p: u64, mode: Mode) -> Dec {
    assert!(k == 2 || k == 3);
    if n.is_zero() {
        return Dec { n: BigInt::zero(), s: 0 };
    }
    let neg = n.is_negative();
    assert!(!(neg && k == 2));
    let a: BigUint = n.magnitude().clone();
    // |x| = a * 10^-s.   root has leading digit at exponent floor((digits(a) - s - 1) / k) roughly;
    // pick candidate t then fix up so that r has exactly p digits.
    let d = ndigits(&BigInt::from(a.clone())) as i128;
    let e = (d - s - 1).div_euclid(k as i128); // exponent of leading digit of the root (may be off by at most... exact actually)
    let mut t = p as i128 - 1 - e; // result scale so that root*10^t has p digits
    loop {
        // X = a * 10^(k*t - s) as a rational: numerator/denominator
        let shift = k as i128 * t - s;
        let (num, den): (BigUint, BigUint) = if shift >= 0 {
            (&a * pow10(shift as u64).magnitude(), BigUint::one())
        } else {
            (a.clone(), pow10((-shift) as u64).magnitude().clone())
        };
        // r = floor(root_k(num/den)) = floor(root_k(floor(num/den)))
        let xf = &num / &den;
        let r = if k == 2 { isqrt(&xf) } else { icbrt(&xf) };
        let rd = if r.is_zero() { 0 } else { ndigits(&BigInt::from(r.clone())) };
        if rd < p {
            t += 1;
            continue;
        }
        if rd > p {
            t -= 1;
            continue;
        }
        // exactness: r^k * den == num
        let rk = upow(&r, k);
        let exact = &rk * &den == num;
        // midpoint comparison: (2r+1)^k * den  vs  2^k * num
        let mid = upow(&(&r * 2u32 + 1u32), k) * &den;
        let twok = &num << (k as usize);
        let vs_mid = twok.cmp(&mid); // Greater: true root above midpoint
        let up_mag = if exact {
            false
        } else {
            match mode {
                Mode::Up => true,
                Mode::Down => false,
                Mode::Ceiling => !neg,
                Mode::Floor => neg,
                Mode::HalfUp => vs_mid != Ordering::Less,
                Mode::HalfDown => vs_mid == Ordering::Greater,
                Mode::HalfEven => vs_mid == Ordering::Greater || (vs_mid == Ordering::Equal && r.is_odd()),
            }
        };
        let m = if up_mag { r + 1u32 } else { r };
        let mut res = Dec { n: BigInt::from(m), s: t };
        if ndigits(&res.n) > p {
            res = exactly_p_digits(&res, p);
        }
        if neg {
            res.n = -res.n;
        }
        return res;
    }
}

// ---------------------------------------------------------------------------------------------
// rationals

/// number of significant decimal digits of the exact value num/den if it terminates, else None.
/// (num, den non-zero)
pub fn terminating_digits(num: &BigInt, den: &BigInt) -> Option<u64> {
    let g = num.gcd(den);
    let mut d = (den / &g).abs();
    let mut n = (num / &g).abs();
    let two = BigInt::from(2);
    let five = BigInt::from(5);
    let (mut e2, mut e5) = (0u64, 0u64);
    while (&d % &two).is_zero() {
        d /= &two;
        e2 += 1;
    }
    while (&d % &five).is_zero() {
        d /= &five;
        e5 += 1;
    }
    if !d.is_one() {
        return None;
    }
    // value = n / (2^e2 5^e5) = n * 2^(m-e2) 5^(m-e5) / 10^m, m = max
    let m = e2.max(e5);
    for _ in 0..(m - e2) {
        n *= &two;
    }
    for _ in 0..(m - e5) {
        n *= &five;
    }
    let dn = Dec { n, s: m as i128 }.norm();
    Some(ndigits(&dn.n))
}

/// exact comparison of decimal (rn, rs) with rational (an*10^-as_)/(bn*10^-bs): returns
/// sign(r - a/b)
pub fn cmp_dec_with_quotient(r: &Dec, a: &Dec, b: &Dec) -> Ordering {
    // r ? a/b   <=>  r*b ? a  (flip if b<0)
    let lhs = r.mul(b);
    let o = cmp_val(&lhs.n, lhs.s, &a.n, a.s);
    if b.n.is_negative() {
        o.reverse()
    } else {
        o
    }
}

/// |r - a/b| <= (num/den) * 10^ulp_exp  ?   (all exact)
pub fn within_quotient(r: &Dec, a: &Dec, b: &Dec, tol: &Dec) -> bool {
    // |r*b - a| <= tol*|b|
    let lhs = r.mul(b).sub(a);
    let lhs = Dec { n: lhs.n.abs(), s: lhs.s };
    let rhs = tol.mul(&Dec { n: b.n.abs(), s: b.s });
    cmp_val(&lhs.n, lhs.s, &rhs.n, rhs.s) != Ordering::Greater
}

/// a/b correctly rounded to p significant digits (exactly p digits unless zero)
pub fn div_rounded(a: &Dec, b: &Dec, p: u64, mode: Mode) -> Dec {
    assert!(!b.n.is_zero());
    if a.n.is_zero() {
        return Dec { n: BigInt::zero(), s: 0 };
    }
    let neg = a.n.is_negative() != b.n.is_negative();
    let (an, bn) = (a.n.abs(), b.n.abs());
    // choose k such that floor(an*10^k/bn) has p or p+1 digits, then fix
    let mut k: i128 = p as i128 + ndigits(&bn) as i128 - ndigits(&an) as i128;
    loop {
        let (num, den) = if k >= 0 { (&an * pow10(k as u64), bn.clone()) } else { (an.clone(), &bn * pow10((-k) as u64)) };
        let q = &num / &den;
        let qd = if q.is_zero() { 0 } else { ndigits(&q) };
        if qd < p {
            k += 1;
            continue;
        }
        if qd > p {
            k -= 1;
            continue;
        }
        let signed_num = if neg { -num } else { num };
        let m = round_div(&signed_num, &den, mode);
        let res = Dec { n: m, s: a.s - b.s + k };
        return if ndigits(&res.n) > p { exactly_p_digits(&res, p) } else { res };
    }
}

#[cfg(test)]
mod tests {
    use super::*;
    #[test]
    fn roots() {
        let r = root_rounded(&BigInt::from(2), 0, 2, 5, Mode::HalfEven);
        assert_eq!(r.show(), "14142e-4");
        let r = root_rounded(&BigInt::from(930000), 0, 3, 4, Mode::Up);
        assert_eq!(r.show(), "9762e-2");
        let r = root_rounded(&BigInt::from(-8), 0, 3, 3, Mode::Floor);
        assert!(r.eq_val(&Dec::new(-2, 0)));
        let r = root_rounded(&BigInt::from(4), 0, 2, 1, Mode::Up);
        assert_eq!(r.show(), "2e0");
        let r = root_rounded(&BigInt::from(99), 0, 2, 1, Mode::Up);
        assert!(r.eq_val(&Dec::new(10, 0)));
    }
    #[test]
    fn div() {
        let r = div_rounded(&Dec::new(1, 0), &Dec::new(3, 0), 5, Mode::HalfUp);
        assert_eq!(r.show(), "33333e-5");
        let r = div_rounded(&Dec::new(2, 0), &Dec::new(-3, 0), 3, Mode::HalfUp);
        assert_eq!(r.show(), "-667e-3");
        assert_eq!(terminating_digits(&BigInt::from(1), &BigInt::from(8)), Some(3));
        assert_eq!(terminating_digits(&BigInt::from(1), &BigInt::from(3)), None);
        assert_eq!(terminating_digits(&BigInt::from(10), &BigInt::from(4)), Some(2));
    }
    #[test]
    fn cmp() {
        assert_eq!(cmp_val(&BigInt::from(1), i64::MIN as i128, &BigInt::from(1), i64::MAX as i128), Ordering::Greater);
        assert_eq!(cmp_val(&BigInt::from(10), 1, &BigInt::from(1), 0), Ordering::Equal);
        assert_eq!(cmp_val(&BigInt::from(-10), 1, &BigInt::from(-1), -5), Ordering::Greater);
    }
}
