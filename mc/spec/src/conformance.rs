//! Model conformance suite: literal expectations copied from the subject's documentation
//! (RoundingMode doc tables, doc examples, README) are run through the MODEL before the model is
//! allowed to judge anything.  A failure here is a machinery error, never a verdict.

use crate::numeral::expected_parse;
use crate::*;

/// RoundingMode documentation: inputs 5.5 2.5 1.6 1.1 -1.1 -1.6 -2.5 -5.5 rounded to integers
const DOC_TABLE: [(Mode, [i32; 8]); 7] = [
    (Mode::Up, [6, 3, 2, 2, -2, -2, -3, -6]),
    (Mode::Down, [5, 2, 1, 1, -1, -1, -2, -5]),
    (Mode::Ceiling, [6, 3, 2, 2, -1, -1, -2, -5]),
    (Mode::Floor, [5, 2, 1, 1, -2, -2, -3, -6]),
    (Mode::HalfUp, [6, 3, 2, 1, -1, -2, -3, -6]),
    (Mode::HalfDown, [5, 2, 2, 1, -1, -2, -2, -5]),
    (Mode::HalfEven, [6, 2, 2, 1, -1, -2, -2, -6]),
];
const DOC_INPUTS: [i32; 8] = [55, 25, 16, 11, -11, -16, -25, -55];

fn dec(s: &str) -> Dec {
    expected_parse(s).unwrap_or_else(|| panic!("conformance literal does not parse: {}", s))
}

/// returns the number of literal expectations checked
pub fn run() -> usize {
    let mut n = 0;
    for (mode, exp) in DOC_TABLE.iter() {
        for (i, x) in DOC_INPUTS.iter().enumerate() {
            let got = round_to_scale(&BigInt::from(*x), 1, 0, *mode);
            assert_eq!(got, BigInt::from(exp[i]), "doc table {:?} {}", mode, x);
            n += 1;
        }
    }
    // with_scale_round doc-test style literals (lib.rs tests): 1.45 -> 1.4/1.5, etc.
    let lits: [(&str, i128, Mode, &str); 12] = [
        ("1.45", 1, Mode::HalfEven, "1.4"),
        ("1.45", 1, Mode::HalfUp, "1.5"),
        ("1.45", 1, Mode::HalfDown, "1.4"),
        ("-1.45", 1, Mode::HalfUp, "-1.5"),
        ("1.55", 1, Mode::HalfEven, "1.6"),
        ("1.451", 1, Mode::HalfDown, "1.5"),
        ("9.99", 1, Mode::Up, "10.0"),
        ("-9.99", 1, Mode::Floor, "-10.0"),
        ("0.001", 2, Mode::Up, "0.01"),
        ("0.001", 2, Mode::Down, "0.00"),
        ("123", -2, Mode::HalfUp, "1e2"),
        ("150", -2, Mode::HalfEven, "2e2"),
    ];
    for (x, t, m, want) in lits {
        let d = dec(x);
        let got = Dec { n: round_to_scale(&d.n, d.s, t, m), s: t };
        assert!(got.eq_val(&dec(want)), "round_to_scale {} {} {:?}", x, t, m);
        n += 1;
    }
    // precision literals
    let plits: [(&str, u64, Mode, &str); 6] = [
        ("3.14159", 3, Mode::HalfEven, "3.14"),
        ("3.14159", 4, Mode::HalfEven, "3.142"),
        ("999", 2, Mode::HalfUp, "1.0e3"),
        ("-129.41675", 2, Mode::HalfUp, "-130"),
        ("129.41675", 2, Mode::HalfUp, "130"),
        ("0.0123456", 2, Mode::Down, "0.012"),
    ];
    for (x, p, m, want) in plits {
        let d = dec(x);
        let got = round_to_prec(&d.n, d.s, p, m);
        assert!(got.eq_val(&dec(want)), "round_to_prec {} {} {:?} -> {}", x, p, m, got.show());
        n += 1;
    }
    // roots (README / doc literals): sqrt(2) to 10 digits, sqrt(1e-6)=1e-3, cbrt(27)=3, cbrt(-0.001) = -0.1
    let r = root_rounded(&BigInt::from(2), 0, 2, 10, Mode::HalfEven);
    assert!(r.eq_val(&dec("1.414213562")));
    let r = root_rounded(&BigInt::from(1), 6, 2, 5, Mode::HalfEven);
    assert!(r.eq_val(&dec("0.001")));
    let r = root_rounded(&BigInt::from(27), 0, 3, 7, Mode::Up);
    assert!(r.eq_val(&dec("3")));
    let r = root_rounded(&BigInt::from(-1), 3, 3, 7, Mode::Floor);
    assert!(r.eq_val(&dec("-0.1")));
    let r = root_rounded(&BigInt::from(10), 0, 3, 6, Mode::HalfUp);
    assert!(r.eq_val(&dec("2.15443")));
    n += 5;
    // quotients
    let q = div_rounded(&dec("1"), &dec("3"), 4, Mode::HalfUp);
    assert!(q.eq_val(&dec("0.3333")));
    let q = div_rounded(&dec("2"), &dec("3"), 4, Mode::HalfUp);
    assert!(q.eq_val(&dec("0.6667")));
    let q = div_rounded(&dec("-1"), &dec("8"), 2, Mode::HalfEven);
    assert!(q.eq_val(&dec("-0.12")));
    n += 3;
    // parser literals from the subject's own from_str tests
    for (txt, int, exp) in [
        ("1331.107", 1331107i64, -3i128),
        ("1.0", 10, -1),
        ("2e1", 2, 1),
        ("0.00123", 123, -5),
        ("-123", -123, 0),
        ("12.3", 123, -1),
        ("123e-1", 123, -1),
        ("1.23e+1", 123, -1),
        ("1.23E+3", 123, 1),
        ("1.23E-8", 123, -10),
        ("-1.23E-10", -123, -12),
        ("1_000.5", 10005, -1),
    ] {
        let d = dec(txt);
        assert_eq!((d.n.clone(), d.s), (BigInt::from(int), -exp), "parse {}", txt);
        n += 1;
    }
    crate::exp::self_check();
    n += 3;
    // floats: 0.1f32 and 0.1f64 exact expansions, published
    let v = crate::float::exact_value(&crate::float::decode_f32(0.1f32.to_bits())).unwrap();
    assert!(v.eq_val(&dec("0.100000001490116119384765625")));
    let v = crate::float::exact_value(&crate::float::decode_f64(0.1f64.to_bits())).unwrap();
    assert!(v.eq_val(&dec("0.1000000000000000055511151231257827021181583404541015625")));
    let v = crate::float::exact_value(&crate::float::decode_f64(f64::MAX.to_bits())).unwrap();
    assert_eq!(v.n, crate::float::f64_max());
    let v = crate::float::exact_value(&crate::float::decode_f64(1)).unwrap();
    assert_eq!(v.norm().show(), "4940656458412465441765687928682213723650598026143247644255856825006755072702087518652998363616359923797965646954457177309266567103559397963987747960107818781263007131903114045278458171678489821036887186360569987307230500063874091535649843873124733972731696151400317153853980741262385655911710266585566867681870395603106249319452715914924553293054565444011274801297099995419319894090804165633245247571478690147267801593552386115501348035264934720193790268107107491703332226844753335720832431936092382893458368060106011506169809753078342277318329247904982524730776375927247874656084778203734469699533647017972677717585125660551199131504891101451037862738167250955837389733598993664809941164205702637090279242767544565229087538682506419718265533447265625e-1074");
    n += 4;
    n
}
