//! Outward-rounded enclosure of e^x in decimal fixed point.
//!
//! `exp_bounds(n, s, sig)` returns (lo, hi, f) with lo/10^f <= e^(n*10^-s) <= hi/10^f and
//! (hi-lo) far below one unit of the `sig`-th significant digit.  Only + * div on BigInt.

use crate::pow10;
use num_bigint::BigInt;
use num_integer::Integer;
use num_traits::{One, Signed, ToPrimitive, Zero};

fn div_ceil(a: &BigInt, b: &BigInt) -> BigInt {
    let (q, r) = a.div_mod_floor(b);
    if r.is_zero() {
        q
    } else {
        q + 1
    }
}

pub struct Enclosure {
    pub lo: BigInt,
    pub hi: BigInt,
    /// number of fractional decimal digits of lo and hi
    pub f: u64,
}

/// |x| must be below 10^6 (the model is used for |x| <= 1000)
pub fn exp_bounds(n: &BigInt, s: i128, sig: u64) -> Enclosure {
    let absn = n.abs();
    // integer ceiling of |x|
    let ax: u64 = if s <= 0 {
        (&absn * pow10((-s) as u64)).to_u64().expect("argument too large for the exp model")
    } else {
        div_ceil(&absn, &pow10(s as u64)).to_u64().expect("argument too large for the exp model")
    };
    assert!(ax <= 1_000_000);
    // decimal digits of e^|x| : |x| * log10(e) < |x| * 0.4343 + 1
    let mag_digits = (ax * 4343) / 10000 + 2;
    // halvings so that r = |x| / 2^k <= 1/256
    let mut k = 0u32;
    while (ax as u128) * 256 > (1u128 << k) {
        k += 1;
    }
    // working fraction digits: result digits + magnitude (for the reciprocal: twice) + loss in k squarings + slack
    let f = sig + 2 * mag_digits + (k as u64) + 40;
    let one = pow10(f);
    let mul_lo = |a: &BigInt, b: &BigInt| (a * b).div_floor(&one);
    let mul_hi = |a: &BigInt, b: &BigInt| div_ceil(&(a * b), &one);
    // r in [r_lo, r_hi] (fixed point)
    let mut num = &absn * &one;
    if s < 0 {
        num *= pow10((-s) as u64);
    }
    let den = (if s >= 0 { pow10(s as u64) } else { BigInt::one() }) << (k as usize);
    let r_lo = num.div_floor(&den);
    let r_hi = div_ceil(&num, &den);
    // Taylor series with all terms positive: lower sum from floor-rounded terms, upper from ceil-rounded
    let mut sum_lo = one.clone();
    let mut sum_hi = one.clone();
    let mut t_lo = one.clone();
    let mut t_hi = one.clone();
    let mut j = 0u64;
    loop {
        j += 1;
        let jj = BigInt::from(j);
        t_lo = mul_lo(&t_lo, &r_lo).div_floor(&jj);
        t_hi = div_ceil(&mul_hi(&t_hi, &r_hi), &jj);
        sum_lo += &t_lo;
        sum_hi += &t_hi;
        if t_hi < BigInt::from(2) {
            break;
        }
        assert!(j < 100_000, "exp model: no convergence");
    }
    // remainder after term j: sum_{i>j} r^i/i! <= t_j * (r + r^2 + ...) <= t_j (r <= 1/2); t_hi over-approximates t_j
    sum_hi += &t_hi + 2;
    let (mut lo, mut hi) = (sum_lo, sum_hi);
    for _ in 0..k {
        lo = mul_lo(&lo, &lo);
        hi = mul_hi(&hi, &hi);
    }
    let enc = if n.is_negative() {
        let one2 = &one * &one;
        Enclosure { lo: one2.div_floor(&hi), hi: div_ceil(&one2, &lo), f }
    } else {
        Enclosure { lo, hi, f }
    };
    assert!(enc.lo <= enc.hi && enc.lo.is_positive(), "exp model: degenerate enclosure");
    enc
}

/// first 150 digits of e (published value), used to validate the enclosure at start-up
pub const E_DIGITS: &str = "271828182845904523536028747135266249775724709369995957496696762772407663035354759457138217852516642742746639193200305992181741359662904357290033429526";

pub fn self_check() {
    let e = exp_bounds(&BigInt::from(1), 0, 100);
    let (los, his) = (e.lo.to_str_radix(10), e.hi.to_str_radix(10));
    assert!(los.starts_with(&E_DIGITS[..110]) && his.starts_with(&E_DIGITS[..110]), "exp model does not enclose e");
    // e^-1 * e^1 must enclose 1
    let m = exp_bounds(&BigInt::from(-1), 0, 100);
    let one2 = pow10(e.f + m.f);
    assert!(&e.lo * &m.lo <= one2 && &e.hi * &m.hi >= one2);
    // e^0
    let z = exp_bounds(&BigInt::from(0), 0, 100);
    let one = pow10(z.f);
    assert!(z.lo <= one && z.hi >= one);
}
