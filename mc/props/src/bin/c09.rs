//! C09 — remainder satisfies the truncated-division identity exactly.
use bigdecimal::BigDecimal;
use num_bigint::BigInt;
use num_traits::{Signed, Zero};
use props::alpha::*;
use props::conv::*;
use props::engine::*;
use serde_json::{json, Value};
use spec::*;

type F2 = fn(&BigDecimal, &BigDecimal) -> BigDecimal;
fn forms() -> Vec<(&'static str, F2)> {
    vec![
        ("V%V", |a, b| a.clone() % b.clone()),
        ("V%R", |a, b| a.clone() % b),
        ("R%V", |a, b| a % b.clone()),
        ("R%R", |a, b| a % b),
        ("V%=R", |a, b| {
            let mut t = a.clone();
            t %= b;
            t
        }),
    ]
}

/// r = a - b*trunc(a/b), computed on integers aligned to the larger scale
fn model_rem(a: &Dec, b: &Dec) -> Dec {
    let s = a.s.max(b.s);
    let an = &a.n * pow10((s - a.s) as u64);
    let bn = &b.n * pow10((s - b.s) as u64);
    // BigInt division truncates toward zero
    let q = &an / &bn;
    Dec { n: an - &bn * q, s }
}

fn check(forms: &[(&'static str, F2)], a: &Dec, b: &Dec, xa: &BigDecimal, xb: &BigDecimal, t: &mut Tally) -> Vec<Violation> {
    let mut out = vec![];
    let gap = a.s - b.s;
    for (name, f) in forms {
        t.transitions += 1;
        let case = json!({"form": name, "a": a.show(), "b": b.show()});
        let site = format!("rem {}", name);
        let mk = |class: &str, exp: String, obs: String| {
            Violation::new(&site, class, case.clone(), exp, obs).attr("form", *name).attr("gap", gap.to_string()).attr("sign_a", a.n.is_negative()).attr("sign_b", b.n.is_negative())
        };
        let got = guard(|| f(xa, xb));
        if b.n.is_zero() {
            if let Ok(r) = got {
                out.push(mk("no_panic", "panic (zero divisor)".into(), show(&r)));
            }
            continue;
        }
        let want = model_rem(a, b);
        // self-checks of the identity on the model side: |r| < |b|, r = 0 or sign(r) = sign(a)
        debug_assert!(want.n.is_zero() || want.n.is_negative() == a.n.is_negative());
        match got {
            Err(p) => out.push(mk("panic", want.show(), p)),
            Ok(r) => {
                let r = dec(&r);
                if !r.eq_val(&want) {
                    out.push(mk("wrong_value", want.show(), r.show()));
                }
            }
        }
    }
    out
}

fn replay(case: &Value) -> Vec<Violation> {
    let (a, b) = (jd(&case["a"]), jd(&case["b"]));
    let fs: Vec<(&'static str, F2)> = forms().into_iter().filter(|f| f.0 == case["form"].as_str().unwrap()).collect();
    check(&fs, &a, &b, &bd(&a), &bd(&b), &mut Tally::default())
}

fn main() {
    let (run, inv) = Run::start("C09");
    if let Invocation::Replay(f) = &inv {
        run.replay(f, replay);
    }
    let tier = run.tier();
    let fs = forms();
    run.rule("every ordered pair (a, b != 0) of each sub-domain through 5 forms (owned/borrowed x owned/borrowed, %=) against r = a - b*trunc(a/b) on aligned integers; zero divisors must panic; non-trivial = scales differ (one side must be re-scaled) or signs differ; cases distinct by construction");
    run.assume("model self-check: |r| < |b| and sign(r) = sign(a) are asserted on the model side in debug builds of the harness; the identity itself is the oracle");

    let nmax: i64 = tier.pick(80, 600);
    run.bound("S1_unscaled_max", nmax);
    run.bound("S1_scales", "-3..=3");
    let ops = small_decimals(nmax, -3, 3);
    let xs: Vec<BigDecimal> = ops.iter().map(bd).collect();
    run.par("S1 small-scope pairs", ops.len(), |i| {
        let mut t = Tally::default();
        t.states += 1;
        for j in 0..ops.len() {
            if ops[j].n.is_zero() {
                continue;
            }
            if ops[i].s != ops[j].s || ops[i].n.is_negative() != ops[j].n.is_negative() {
                t.nontrivial += 5;
            }
            for v in check(&fs, &ops[i], &ops[j], &xs[i], &xs[j], &mut t) {
                run.report(v);
            }
        }
        if i % 211 == 17 {
            run.sample(|| json!({"form": "R%R", "a": ops[i].show(), "b": ops[(i * 7 + 3) % ops.len()].show()}));
        }
        t
    });

    // S2: gap sweep in both directions
    let gs: Vec<u64> = if tier.is_thorough() { (0..=3000).chain(gaps().into_iter().filter(|g| *g > 3000)).collect() } else { gaps() };
    run.bound("S2_gaps", if tier.is_thorough() { json!("every gap 0..=3000 plus the alphabet above") } else { json!(gs) });
    let two64: BigInt = BigInt::from(1) << 64usize;
    let mut gops: Vec<BigInt> = vec![BigInt::from(1), BigInt::from(-1), BigInt::from(7), BigInt::from(-7), BigInt::from(3), pow10(19) - 1, pow10(20) + 3, &two64 + 1, BigInt::from(1005), BigInt::from(2048)];
    for l in tier.pick(vec![40usize, 591], vec![40, 100, 591, 2000]) {
        gops.push(big(&filler_digits(run.seed(), l as u64, l)));
    }
    run.par("S2 scale-gap sweep", gs.len(), |gi| {
        let g = gs[gi] as i128;
        let mut t = Tally::default();
        t.states += 1;
        // divisions of 10^4..10^5-digit integers are quadratic: fewer operands at the largest gaps
        let take = if g > 2000 { 4 } else { gops.len() };
        for x in gops.iter().rev().take(take) {
            for y in gops.iter().take(take) {
                for (sa, sb) in [(0i128, g), (g, 0), (-g, 2), (1, 1 - g)] {
                    let a = Dec { n: x.clone(), s: sa };
                    let b = Dec { n: y.clone(), s: sb };
                    t.nontrivial += 5;
                    for v in check(&fs, &a, &b, &bd(&a), &bd(&b), &mut t) {
                        run.report(v);
                    }
                }
            }
        }
        // a just inside / outside a multiple of b at this gap: a = b*10^g*k + d
        for k in [1i64, 2, 9] {
            for d in [-1i64, 0, 1, 5] {
                for y in [BigInt::from(1), BigInt::from(3), BigInt::from(-1)] {
                    let a = Dec { n: &y * pow10(g as u64) * k + d, s: g };
                    let b = Dec { n: y.clone(), s: 0 };
                    t.nontrivial += 5;
                    for v in check(&fs, &a, &b, &bd(&a), &bd(&b), &mut t) {
                        run.report(v);
                    }
                }
            }
        }
        t
    });

    // S2b: every gap 0..=G with the cheap near-multiple operands only: a = y*10^g*k + d at scale g, b = y
    let gmax: usize = tier.pick(2000, 5000);
    run.bound("S2b_every_gap_to", gmax);
    run.par("S2b near-multiples at every gap", gmax + 1, |g| {
        let mut t = Tally::default();
        t.states += 1;
        let p = pow10(g as u64);
        for y in [BigInt::from(1), BigInt::from(-1), BigInt::from(3)] {
            for k in [1i64, 7] {
                for d in [-1i64, 0, 1, 7] {
                    let a = Dec { n: &y * &p * k + d, s: g as i128 };
                    let b = Dec { n: y.clone(), s: 0 };
                    t.nontrivial += 5;
                    for v in check(&fs, &a, &b, &bd(&a), &bd(&b), &mut t) {
                        run.report(v);
                    }
                    // and the mirrored arrangement: the divisor carries the larger scale
                    let a2 = Dec { n: &y * k + d, s: 0 };
                    let b2 = Dec { n: &y * &p, s: g as i128 };
                    for v in check(&fs, &a2, &b2, &bd(&a2), &bd(&b2), &mut t) {
                        run.report(v);
                    }
                }
            }
        }
        t
    });

    // S2c: near-multiples of LONG divisors: a = q*b + r with the remainder r below / at / above one unit of the
    // divisor's last place (r = d*10^-j for every j up to 40, and r = d*10^j below |b|), divisors on both sides
    // of one and two machine words; the dividend carries the finer scale, and the mirrored arrangement
    let two64 = BigInt::from(1) << 64usize;
    let long_divs: Vec<BigInt> = vec![&two64 - 1, &two64 + 1, pow10(19) + 7, big("12345678901234567890123"), (&two64 * &two64) + 5, big(&filler_digits(run.seed(), 40, 40))];
    run.bound("S2c_long_divisors", json!(long_divs.iter().map(|b| b.to_string()).collect::<Vec<_>>()));
    run.par("S2c near-multiples of long divisors", 41, |j| {
        let mut t = Tally::default();
        let pj = pow10(j as u64);
        for b0 in long_divs.iter() {
            for q in [BigInt::from(1), BigInt::from(3), BigInt::from(100_001), pow10(20) + 3] {
                for d in [1i64, 9, -1] {
                    for sb in [0i128, -2, 3] {
                        for (sq, sbn) in [(1, 1), (-1, 1), (1, -1)] {
                            // a = q*b + d*10^-j in units of b's last place
                            let b = Dec { n: b0 * sbn, s: sb };
                            let a = Dec { n: (&q * b0 * &pj + d) * sq, s: sb + j as i128 };
                            t.states += 1;
                            t.nontrivial += 5;
                            for v in check(&fs, &a, &b, &bd(&a), &bd(&b), &mut t) {
                                run.report(v);
                            }
                            // mirrored: the divisor carries the finer scale (written-out zeros)
                            let b2 = Dec { n: b0 * &pj * sbn, s: sb + j as i128 };
                            let a2 = Dec { n: (&q * b0 + d) * sq, s: sb };
                            for v in check(&fs, &a2, &b2, &bd(&a2), &bd(&b2), &mut t) {
                                run.report(v);
                            }
                        }
                    }
                }
            }
        }
        t
    });

    // S2d: quotients at the machine-word limits against divisors on both sides of one and two words: a = q*b + r
    // with q = 2^e + d (e in 31, 32, 63, 64, 65, 127, 128), r in {0, 1, b/2, b-1}: the bit-length gap between
    // dividend and divisor sits on every word boundary, and the quotient is larger / smaller than the divisor's top word
    let mut qs: Vec<BigInt> = vec![];
    for e in [31usize, 32, 63, 64, 65, 127, 128] {
        for d in [-1i64, 0, 1] {
            qs.push((BigInt::from(1) << e) + d);
        }
    }
    let mut divs: Vec<BigInt> = vec![];
    for e in [32usize, 63, 64, 65, 96, 127, 128] {
        for d in [-1i64, 1, 3] {
            divs.push((BigInt::from(1) << e) + d);
        }
    }
    divs.extend([pow10(19) + 7, big("371896427146091724422131161506"), big("12345678901234567890123")]);
    run.bound("S2d_word_limit_quotients", qs.len());
    run.bound("S2d_divisors", divs.len());
    run.par("S2d word-limit quotients", divs.len(), |i| {
        let mut t = Tally::default();
        let b0 = &divs[i];
        for q in qs.iter() {
            for r in [BigInt::from(0), BigInt::from(1), b0 / 2, b0 - 1] {
                let a0 = q * b0 + &r;
                for (sa, sb, sq) in [(0i128, 0i128, 1), (3, 3, -1), (2, 0, 1), (0, 2, 1)] {
                    let a = Dec { n: &a0 * sq, s: sa };
                    let b = Dec { n: b0.clone(), s: sb };
                    t.states += 1;
                    t.nontrivial += 5;
                    for v in check(&fs, &a, &b, &bd(&a), &bd(&b), &mut t) {
                        run.report(v);
                    }
                    let nb = Dec { n: -b0.clone(), s: sb };
                    for v in check(&fs, &a, &nb, &bd(&a), &bd(&nb), &mut t) {
                        run.report(v);
                    }
                }
            }
        }
        t
    });

    // S3: exact multiples, operands equal up to representation, |a| < |b|
    let mut s3: Vec<(Dec, Dec)> = vec![];
    for n in [1i64, 3, 12, 125, -7, 999] {
        for k in 0..12u64 {
            for s in [-2i128, 0, 3] {
                let a = Dec::new(n, s);
                let twin = Dec { n: &a.n * pow10(k), s: a.s + k as i128 };
                s3.push((a.clone(), twin.clone()));
                s3.push((twin.clone(), a.clone()));
                s3.push((a.mul(&Dec::new(17, 0)), twin.clone()));
                s3.push((a.mul(&Dec::new(-17, 1)), twin.neg()));
                s3.push((a.clone(), twin.mul(&Dec::new(1000, 0))));
            }
        }
    }
    run.par("S3 multiples and twins", s3.len(), |i| {
        let mut t = Tally::default();
        t.states += 1;
        t.nontrivial += 5;
        let (a, b) = &s3[i];
        for v in check(&fs, a, b, &bd(a), &bd(b), &mut t) {
            run.report(v);
        }
        t
    });

    // S3b: word-limit operands (+-2^31, 2^32, 2^63, 2^64, 2^127, 2^128 and neighbours) against small and
    // word-limit divisors, equal and differing scales
    let mut lim: Vec<BigInt> = vec![];
    for e in [31usize, 32, 63, 64, 127, 128] {
        for d in [-1i64, 0, 1] {
            lim.push((BigInt::from(1) << e) + d);
            lim.push(-((BigInt::from(1) << e) + d));
        }
    }
    let mut small: Vec<BigInt> = [1i64, -1, 2, -2, 3, -3, 10, 7].iter().map(|v| BigInt::from(*v)).collect();
    small.extend(lim.iter().cloned());
    run.bound("S3b_word_limit_operands", lim.len());
    run.par("S3b word-limit operands", lim.len(), |i| {
        let mut t = Tally::default();
        for b in small.iter() {
            for (sa, sb) in [(0i128, 0i128), (3, 3), (-2, -2), (0, 1), (1, 0), (5, 0), (0, 21)] {
                for (x, y) in [(&lim[i], b), (b, &lim[i])] {
                    let a = Dec { n: x.clone(), s: sa };
                    let bb = Dec { n: y.clone(), s: sb };
                    t.states += 1;
                    t.nontrivial += 5;
                    for v in check(&fs, &a, &bb, &bd(&a), &bd(&bb), &mut t) {
                        run.report(v);
                    }
                }
            }
        }
        t
    });

    // S3c: structured operands (word limits, word-crossing products, digit patterns at every length, carry
    // chains, all-ones words) as dividends and as divisors
    let st = structured_ints(tier.pick(60, 200), tier.pick(24, 60), run.seed());
    run.bound("S3c_structured_integers", st.len());
    run.par("S3c structured operands", st.len(), |i| {
        let mut t = Tally::default();
        let x = &st[i];
        let two64 = BigInt::from(1) << 64usize;
        let others: Vec<BigInt> = vec![BigInt::from(1), BigInt::from(-1), BigInt::from(3), BigInt::from(-7), BigInt::from(10), BigInt::from(1u64 << 32), &two64 - 1, -(&two64 + 1i32), pow10(19), x + 1, x - 1i32, x.clone()];
        for y in others.iter() {
            if y.is_zero() {
                continue;
            }
            for (sa, sb) in [(0i128, 0i128), (3, 3), (0, 1), (1, 0), (0, 20), (20, 0), (-2, 2)] {
                for (u, v) in [(x.clone(), y.clone()), (y.clone(), x.clone()), (-x.clone(), y.clone())] {
                    let a = Dec { n: u, s: sa };
                    let bb = Dec { n: v, s: sb };
                    t.states += 1;
                    t.nontrivial += 5;
                    for viol in check(&fs, &a, &bb, &bd(&a), &bd(&bb), &mut t) {
                        run.report(viol);
                    }
                }
            }
        }
        t
    });

    // S4: zero divisors must panic in every form: every zero representation of the gap alphabet (both directions:
    // the dividend's scale above and below the zero's) x dividends of every size class (zero, one digit, word limits,
    // long), so that no shortcut that sizes the operands up before dividing can skip the division
    let zgaps: Vec<i128> = {
        let mut g: Vec<i128> = gaps().into_iter().filter(|&g| g <= 700).map(|g| g as i128).collect();
        g.extend([1000, 5000, 9440, 10_001]);
        g
    };
    let zdiv: Vec<Dec> = {
        let mut v = vec![Dec::new(5, 0), Dec::new(0, 0), Dec::new(-125, 2), Dec::new(7, -3), Dec::new(1, 20), Dec::new(-1, -25), Dec::new(0, 30)];
        for w in word_limit_ints().into_iter().step_by(7) {
            v.push(Dec { n: w.clone(), s: 3 });
        }
        for (_, n) in long_ints(&[40, 300], run.seed()) {
            v.push(Dec { n: n.clone(), s: 0 });
            v.push(Dec { n: -n, s: 120 });
        }
        v
    };
    run.bound("S4_zero_divisor_gaps", zgaps.len() * 2);
    run.bound("S4_dividends", zdiv.len());
    run.par("S4 zero divisors", zdiv.len(), |i| {
        let mut t = Tally::default();
        let a = &zdiv[i];
        let xa = bd(a);
        for &g in zgaps.iter() {
            for zs in [a.s - g, a.s + g] {
                let z = Dec::new(0, zs);
                t.states += 1;
                t.nontrivial += 5;
                for v in check(&fs, a, &z, &xa, &bd(&z), &mut t) {
                    run.report(v);
                }
            }
        }
        if i == 0 {
            run.sample(|| json!({"form": "V%=R", "a": "5e0", "b": "0e-5"}));
        }
        t
    });
    let _ = BigInt::zero();
    run.finish();
}
