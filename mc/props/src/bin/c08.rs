//! C08 — division is correctly rounded and refuses a zero divisor in every form.
use bigdecimal::BigDecimal;
use num_bigint::BigInt;
use num_traits::{One, Signed, Zero};
use props::alpha::*;
use props::conv::*;
use props::engine::*;
use serde_json::json;
use spec::float::{decode_f32, decode_f64, exact_value};
use spec::*;

const PRECISION: &str = match option_env!("RUST_BIGDECIMAL_DEFAULT_PRECISION") {
    Some(s) => s,
    None => "100",
};

fn precision() -> u64 {
    PRECISION.parse().unwrap()
}

/// Oracle for one quotient: Ok(()) or (class, expected-description)
fn judge(a: &Dec, b: &Dec, r: &Dec, p: u64) -> Result<(), (&'static str, String)> {
    if a.n.is_zero() {
        return if r.n.is_zero() { Ok(()) } else { Err(("wrong_value", "0".into())) };
    }
    // r must be q = a/b rounded half-up (ties away from zero) at r's own scale
    let e = r.s + b.s - a.s;
    let (mut num, mut den) = if e >= 0 { (&a.n * pow10(e as u64), b.n.clone()) } else { (a.n.clone(), &b.n * pow10((-e) as u64)) };
    if den.is_negative() {
        num = -num;
        den = -den;
    }
    let want = round_div(&num, &den, Mode::HalfUp);
    if r.n != want {
        return Err(("wrong_value", format!("{}e{} (a/b rounded half-up at the result's scale)", want, -r.s)));
    }
    let exact = (&r.n * &den) == num;
    if !exact {
        // a rounded result must carry at least P significant digits and the quotient must really need more than P
        if ndigits(&r.n) < p {
            return Err(("too_few_digits", format!("at least {} significant digits", p)));
        }
        if let Some(k) = terminating_digits(&(&a.n * pow10(0)), &b.n).map(|k| k) {
            // value digits of a/b do not depend on the scales
            if k <= p {
                return Err(("inexact_though_representable", format!("the exact quotient ({} digits)", k)));
            }
        }
    }
    Ok(())
}

type F2 = fn(&BigDecimal, &BigDecimal) -> BigDecimal;
fn dec_forms() -> Vec<(&'static str, F2)> {
    vec![("V/V", |a, b| a.clone() / b.clone()), ("V/R", |a, b| a.clone() / b), ("R/V", |a, b| a / b.clone()), ("R/R", |a, b| a / b)]
}

fn attrs(v: Violation, form: &str, a: &Dec, b: &Dec) -> Violation {
    v.attr("form", form).attr("zero_divisor", b.n.is_zero()).attr("numerator_is_one", a.eq_val(&Dec::new(1, 0))).attr("digits_a", ndigits(&a.n)).attr("digits_b", ndigits(&b.n))
}

thread_local! {
    /// the division performed just before the one being checked (call histories, S7)
    static AFTER: std::cell::RefCell<Option<serde_json::Value>> = std::cell::RefCell::new(None);
}

/// decimal / decimal through the four ownership forms: oracle on the first, exact agreement of the rest
fn check_dec(run: &Run, a: &Dec, b: &Dec, forms: &[(&'static str, F2)], t: &mut Tally) {
    let (xa, xb) = (bd(a), bd(b));
    let p = precision();
    let mut first: Option<Dec> = None;
    for (name, f) in forms {
        t.transitions += 1;
        let mut case = json!({"kind": "dec", "form": name, "a": a.show(), "b": b.show()});
        // a history recorded by the caller (the division performed just before on this thread)
        if let Some(h) = AFTER.with(|h| h.borrow().clone()) {
            case["after"] = h;
        }
        match guard(|| f(&xa, &xb)) {
            Err(e) => run.report(attrs(Violation::new(&format!("div {}", name), "panic", case, "a quotient", e), name, a, b)),
            Ok(r) => {
                let r = dec(&r);
                if let Err((class, exp)) = judge(a, b, &r, p) {
                    run.report(attrs(Violation::new(&format!("div {}", name), class, case, exp, r.show()), name, a, b));
                } else if let Some(f0) = &first {
                    if *f0 != r {
                        run.report(attrs(Violation::new(&format!("div {}", name), "forms_disagree", case, f0.show(), r.show()), name, a, b));
                    }
                } else {
                    first = Some(r);
                }
            }
        }
    }
}

// ---- primitive forms ------------------------------------------------------------------------------
/// (name, numerator_is_primitive, f)
macro_rules! int_forms {
    ($t:ty) => {{
        type FP = fn(&BigDecimal, $t) -> BigDecimal;
        let v: Vec<(&'static str, bool, FP)> = vec![
            ("V/T", false, |x, p| x.clone() / p),
            ("R/T", false, |x, p| x / p),
            ("V/&T", false, |x, p| x.clone() / &p),
            ("V/=T", false, |x, p| {
                let mut t = x.clone();
                t /= p;
                t
            }),
            ("V/=&T", false, |x, p| {
                let mut t = x.clone();
                t /= &p;
                t
            }),
            ("T/V", true, |x, p| p / x.clone()),
            ("T/R", true, |x, p| p / x),
            ("&T/V", true, |x, p| &p / x.clone()),
            ("&T/R", true, |x, p| &p / x),
        ];
        v
    }};
}

/// expected result of x (op) prim given the converted decimal c of the primitive
fn check_prim_result(run: &Run, site: &str, form: &str, prim_is_num: bool, x: &Dec, c: &Dec, ty: &str, got: Result<BigDecimal, String>) {
    let case = json!({"kind": "prim", "type": ty, "form": form, "x": x.show(), "prim": c.show()});
    let p = precision();
    let (a, b) = if prim_is_num { (c, x) } else { (x, c) };
    if b.n.is_zero() {
        // every form must panic on a zero divisor
        if let Ok(r) = got {
            run.report(attrs(Violation::new(site, "no_panic", case, "panic (division by zero)", show(&r)), form, a, b).attr("type", ty));
        }
        return;
    }
    let r = match got {
        Err(e) => {
            run.report(attrs(Violation::new(site, "panic", case, "a quotient", e), form, a, b).attr("type", ty));
            return;
        }
        Ok(r) => dec(&r),
    };
    let two = Dec::new(2, 0);
    let verdict = if !prim_is_num && (c.eq_val(&two) || c.eq_val(&two.neg())) {
        // division by +-2 always returns the exact half
        let half = a.mul(&Dec::new(if c.n.is_negative() { -5 } else { 5 }, 1));
        if r.eq_val(&half) {
            Ok(())
        } else {
            Err(("wrong_value", format!("{} (exact half)", half.show())))
        }
    } else if prim_is_num && c.eq_val(&Dec::new(1, 0)) {
        // 1 / x is the reciprocal (C12); here only the zero-divisor clause applies
        Ok(())
    } else {
        judge(a, b, &r, p)
    };
    if let Err((class, exp)) = verdict {
        run.report(attrs(Violation::new(site, class, case, exp, r.show()), form, a, b).attr("type", ty));
    }
}

macro_rules! int_domain {
    ($run:expr, $t:ty, $decs:expr, $t_:expr, $only:expr) => {{
        let forms = int_forms!($t);
        let mut vals: Vec<$t> = vec![0, 1, 2, 3, 7, 10, <$t>::MAX, <$t>::MIN];
        #[allow(unused_comparisons)]
        if <$t>::MIN < 0 {
            vals.extend([(0 as $t).wrapping_sub(1), (0 as $t).wrapping_sub(2), (0 as $t).wrapping_sub(3)]);
        }
        // wide values whose LOW word / half / byte is a small or round number (a truncating cast inside a shortcut
        // would see only that): k*2^e + lo for every narrower width e that fits the type
        for e in [8u32, 16, 32, 64, 96] {
            for k in [1i128, 3] {
                for lo in [0i128, 1, 2, 10, 100, 1000, 1_000_000_000] {
                    for sign in [1i128, -1] {
                        if e < 120 {
                            let c = sign * ((k << e) + lo);
                            #[allow(irrefutable_let_patterns)]
                            if let Ok(v) = <$t>::try_from(c) {
                                vals.push(v);
                            }
                        }
                    }
                }
            }
        }
        vals.sort();
        vals.dedup();
        let ty = stringify!($t);
        for x in $decs.iter() {
            let xb = bd(x);
            for &pv in vals.iter() {
                let c = Dec { n: BigInt::from(pv), s: 0 };
                for (name, prim_is_num, f) in forms.iter() {
                    if let Some((form, prim)) = $only {
                        if *name != form || c.show() != prim {
                            continue;
                        }
                    }
                    $t_.transitions += 1;
                    let got = guard(|| f(&xb, pv));
                    check_prim_result($run, &format!("div {} {}", ty, name), name, *prim_is_num, x, &c, ty, got);
                }
            }
        }
    }};
}

macro_rules! float_domain {
    ($run:expr, $t:ty, $decode:expr, $decs:expr, $t_:expr, $only:expr) => {{
        type FP = fn(&BigDecimal, $t) -> BigDecimal;
        let forms: Vec<(&'static str, bool, FP)> = vec![
            ("V/F", false, |x, p| x.clone() / p),
            ("R/F", false, |x, p| x / p),
            ("V/&F", false, |x, p| x.clone() / &p),
            ("V/=F", false, |x, p| {
                let mut t = x.clone();
                t /= p;
                t
            }),
            ("V/=&F", false, |x, p| {
                let mut t = x.clone();
                t /= &p;
                t
            }),
            ("F/V", true, |x, p| p / x.clone()),
            ("F/R", true, |x, p| p / x),
            ("&F/V", true, |x, p| &p / x.clone()),
            ("&F/R", true, |x, p| &p / x),
        ];
        let vals: Vec<$t> = vec![0.5, -0.5, 2.0, -2.0, 1.0, -1.0, 0.1, 3.0, -7.25, <$t>::MIN_POSITIVE, <$t>::MAX, 1e-30, 1e30, 1024.0];
        let ty = stringify!($t);
        for x in $decs.iter() {
            let xb = bd(x);
            for &pv in vals.iter() {
                let c = exact_value(&$decode(pv.to_bits())).unwrap();
                for (name, prim_is_num, f) in forms.iter() {
                    if let Some((form, prim)) = $only {
                        if *name != form || c.show() != prim {
                            continue;
                        }
                    }
                    // a zero decimal divisor must make float numerators panic too
                    $t_.transitions += 1;
                    let got = guard(|| f(&xb, pv));
                    check_prim_result($run, &format!("div {} {}", ty, name), name, *prim_is_num, x, &c, ty, got);
                }
            }
        }
    }};
}

fn prim_decimals() -> Vec<Dec> {
    let mut v = vec![];
    for n in [1i64, -1, 2, 3, -7, 10, 12345, 100] {
        for s in [0i128, 2, -3] {
            v.push(Dec::new(n, s));
        }
    }
    // zero decimals with scales: divisors of the `prim / x` forms (must panic), numerators of the others
    for s in [0i128, 5, -5] {
        v.push(Dec::new(0, s));
    }
    v.push(Dec { n: pow10(30) + 7, s: 15 });
    v.push(Dec { n: BigInt::from(i128::MIN), s: 0 });
    v.push(Dec { n: pow10(120) + 1, s: 0 });
    v
}

const INT_TYPES: [&str; 10] = ["u8", "u16", "u32", "u64", "u128", "i8", "i16", "i32", "i64", "i128"];
fn run_prim(run: &Run, ty: &str, only: Option<(&str, &str)>) -> Tally {
    let decs = prim_decimals();
    let mut t = Tally::default();
    t.states += decs.len() as u64;
    match ty {
        "u8" => int_domain!(run, u8, decs, t, only),
        "u16" => int_domain!(run, u16, decs, t, only),
        "u32" => int_domain!(run, u32, decs, t, only),
        "u64" => int_domain!(run, u64, decs, t, only),
        "u128" => int_domain!(run, u128, decs, t, only),
        "i8" => int_domain!(run, i8, decs, t, only),
        "i16" => int_domain!(run, i16, decs, t, only),
        "i32" => int_domain!(run, i32, decs, t, only),
        "i64" => int_domain!(run, i64, decs, t, only),
        "i128" => int_domain!(run, i128, decs, t, only),
        "f32" => float_domain!(run, f32, decode_f32, decs, t, only),
        "f64" => float_domain!(run, f64, decode_f64, decs, t, only),
        _ => panic!("unknown type"),
    }
    t
}

fn main() {
    let (run, inv) = Run::start("C08");
    let forms = dec_forms();
    if let Invocation::Replay(f) = &inv {
        let case = f["case"].clone();
        run.seq("replay", || {
            let mut t = Tally::default();
            if case["kind"] == "prim" {
                t = run_prim(&run, case["type"].as_str().unwrap(), Some((case["form"].as_str().unwrap(), case["prim"].as_str().unwrap())));
                // restrict to the recorded decimal by re-reporting only matching cases is not needed: the domain is tiny
            } else if case["kind"] == "zero" {
                zero_matrix(&run, &mut t);
            } else {
                let (a, b) = (jd(&case["a"]), jd(&case["b"]));
                let one: Vec<(&'static str, F2)> = forms.iter().filter(|f| f.0 == case["form"].as_str().unwrap()).cloned().collect();
                if let Some(h) = case.get("after") {
                    // a recorded history: the earlier division first
                    let (pa, pb) = (bd(&jd(&h["a"])), bd(&jd(&h["b"])));
                    let _ = guard(|| &pa / &pb);
                    AFTER.with(|c| *c.borrow_mut() = Some(h.clone()));
                }
                check_dec(&run, &a, &b, &one, &mut t);
            }
            t
        });
        run.finish();
    }
    let tier = run.tier();
    let p = precision();
    run.bound("default_precision", p);
    run.rule("every (dividend, divisor) of each sub-domain through the four ownership forms: the first result is judged against the exact rational (equal when the quotient has <= P digits, else >= P digits and equal to the quotient rounded half-up at the result's own scale), the other forms must return the identical (int, scale); primitive forms judged the same way against the converted decimal (exact half for +-2); every overload with a zero divisor must panic; non-trivial = quotient that does not terminate within P digits (a rounding decision is made); cases distinct by construction");
    run.assume("1 / x forms are only checked for the zero-divisor panic here (their value is C12's reciprocal)");
    run.assume("float divisors/numerators that are not normal are outside the property");

    // S1: small-scope pairs
    let nmax: i64 = tier.pick(300, 2000);
    run.bound("S1_unscaled", format!("1..={}", nmax));
    let scale_pairs: [(i128, i128); 4] = [(0, 0), (2, 0), (0, 3), (-2, 1)];
    run.par("S1 small-scope quotients", nmax as usize, |i| {
        let an = i as i64 + 1;
        let mut t = Tally::default();
        for bn in 1..=nmax {
            let nonterm = terminating_digits(&BigInt::from(an), &BigInt::from(bn)).is_none();
            for (sa, sb) in [(1i64, 1i64), (-1, 1), (1, -1), (-1, -1)] {
                for (ka, kb) in scale_pairs {
                    t.states += 1;
                    if nonterm {
                        t.nontrivial += 4;
                    }
                    check_dec(&run, &Dec::new(an * sa, ka), &Dec::new(bn * sb, kb), &forms, &mut t);
                }
            }
        }
        if i % 97 == 3 {
            run.sample(|| json!({"kind": "dec", "form": "V/V", "a": Dec::new(an, 2).show(), "b": "-7e0"}));
        }
        t
    });

    // S2: terminating divisors 2^i 5^j
    let (imax, jmax) = (tier.pick(40, 60), tier.pick(20, 30));
    run.bound("S2_divisors", format!("2^i 5^j, i<={}, j<={}", imax, jmax));
    run.par("S2 terminating divisors 2^i 5^j", (imax + 1) as usize, |i| {
        let mut t = Tally::default();
        let mut d = BigInt::one() << i;
        for _j in 0..=jmax {
            for num in [BigInt::from(1), BigInt::from(3), BigInt::from(7), pow10(20), pow10(20) + 1, BigInt::from(-3)] {
                t.states += 1;
                check_dec(&run, &Dec { n: num, s: 0 }, &Dec { n: d.clone(), s: 0 }, &forms, &mut t);
            }
            d *= 5;
        }
        t
    });

    // S3: the P-digit boundary: a = q*b with q of P-1, P, P+1, P+2 significant digits; q.5-style ties
    let pl = p as usize;
    let mut s3: Vec<(Dec, Dec)> = vec![];
    for qlen in [pl - 1, pl, pl + 1, pl + 2] {
        for (_, qd) in patterns(qlen, run.seed()) {
            let q = big(&qd);
            for b in [3i64, 7, 1024, 999, -3] {
                for qs in [0i128, 50, -20] {
                    s3.push((Dec { n: &q * b, s: qs }, Dec::new(b, 0)));
                }
            }
            // q with an exact tie just beyond: (2q+1)/2 has one more digit ending in 5
            s3.push((Dec { n: &q * 2 + 1, s: 0 }, Dec::new(2, 3)));
            let odd: BigInt = &q * 2 + 1;
            s3.push((Dec { n: -odd, s: 0 }, Dec::new(2, 0)));
            s3.push((Dec { n: &q * 8 + 4, s: 0 }, Dec::new(8, 0)));
            s3.push((Dec { n: &q * 8 + 3, s: 0 }, Dec::new(8, 0)));
            s3.push((Dec { n: &q * 8 + 5, s: 0 }, Dec::new(-8, 0)));
        }
    }
    // repeating nines/zeros near the P-th digit: b = 10^k -+ 1
    for k in [1u64, 2, 3, p / 2, p - 1, p, p + 1] {
        for a in [1i64, 7, -1, 10, 999] {
            s3.push((Dec::new(a, 0), Dec { n: pow10(k) - 1, s: 0 }));
            s3.push((Dec::new(a, 0), Dec { n: pow10(k) + 1, s: 0 }));
            s3.push((Dec { n: pow10(k) - 1, s: 0 }, Dec { n: pow10(k), s: 3 }));
        }
    }
    run.par("S3 precision boundary and ties", s3.len(), |i| {
        let mut t = Tally::default();
        t.states += 1;
        t.nontrivial += 4;
        check_dec(&run, &s3[i].0, &s3[i].1, &forms, &mut t);
        t
    });

    // S3a: exact multiples of LONG divisors (more digits than the precision): a = q*b with q of P-1..P+2 digits,
    // and q with P+1 digits ending in 5 (an exact tie at the last kept digit)
    let mut s3a: Vec<(Dec, Dec)> = vec![];
    let long_dens: Vec<BigInt> = vec![
        big(&filler_digits(run.seed(), 7121, pl + 21)),
        big(&filler_digits(run.seed(), 7125, pl + 25)),
        big(&filler_digits(run.seed(), 7200, 2 * pl)),
        pow10(pl as u64 + 40) + 1,
        pow10(pl as u64 + 19) - 1,
        big(&filler_digits(run.seed(), 7022, 22)),
    ];
    for den in long_dens.iter() {
        for qlen in [pl - 1, pl, pl + 1, pl + 2] {
            for (_, qd) in patterns(qlen, run.seed()) {
                let q = big(&qd);
                s3a.push((Dec { n: &q * den, s: 7 }, Dec { n: den.clone(), s: 0 }));
                s3a.push((Dec { n: -(&q * den), s: 0 }, Dec { n: den.clone(), s: 12 }));
                // the same quotient produced by the digit loop instead of the first integer division
                s3a.push((Dec { n: &q * den, s: 0 }, Dec { n: den * pow10(qlen as u64 - 1), s: 0 }));
            }
        }
        // exact ties: q has P+1 digits, the last one is 5
        for (_, qd) in patterns(pl, run.seed()) {
            let q5 = big(&format!("{}5", qd));
            s3a.push((Dec { n: &q5 * den, s: 0 }, Dec { n: den.clone(), s: 0 }));
            s3a.push((Dec { n: &q5 * den, s: 3 }, Dec { n: -den.clone(), s: 0 }));
            s3a.push((Dec { n: &q5 * den, s: 0 }, Dec { n: den * pow10(pl as u64), s: 0 }));
            s3a.push((Dec { n: -(&q5 * den), s: 5 }, Dec { n: den * pow10(pl as u64 + 3), s: 1 }));
        }
    }
    run.bound("S3a_long_divisor_cases", s3a.len());
    run.par("S3a exact multiples and ties of long divisors", s3a.len(), |i| {
        let mut t = Tally::default();
        t.states += 1;
        t.nontrivial += 4;
        check_dec(&run, &s3a[i].0, &s3a[i].1, &forms, &mut t);
        t
    });

    // S3c: inexact quotients whose integer part is 10^k - d (all nines / next to a power of ten) for every
    // length k: the digit count of the first integer quotient decides how many more digits are produced
    let kmax: u64 = tier.pick(130, 400);
    run.bound("S3c_integer_quotient_lengths", format!("1..={}", kmax));
    run.par("S3c integer quotients next to powers of ten", kmax as usize, |ki| {
        let k = ki as u64 + 1;
        let mut t = Tally::default();
        let p10 = pow10(k);
        for d in [0i64, 1, 2, 7] {
            for b in [3i64, 7, 11, 999_983] {
                for r in [1i64, 2] {
                    if r >= b {
                        continue;
                    }
                    // a = (10^k - d) * b + r : integer quotient 10^k - d, remainder r
                    let a = (&p10 - d) * b + r;
                    t.states += 1;
                    t.nontrivial += 4;
                    check_dec(&run, &Dec { n: a.clone(), s: 0 }, &Dec::new(b, 0), &forms, &mut t);
                    check_dec(&run, &Dec { n: -a, s: 9 }, &Dec::new(b, 4), &forms, &mut t);
                }
            }
        }
        t
    });

    // S3d: quotients whose digits BEYOND the precision have a decision shape with a run of every length r:
    // Q.4 9^r 5, Q.5 0^r 1 (terminating) and the same +- one unit of the numerator (non-terminating), all P digits
    // of Q produced by the digit loop (quotient < 1), divisors carrying a common long odd factor:
    // a = f*((2Q+1)*10^(r+1) -+ 1) + d,  b = f*2*10^(r+1)*10^(P+3)
    let rmax: u64 = tier.pick(48, 130);
    run.bound("S3d_run_lengths", format!("0..={}", rmax));
    run.par("S3d decision shapes beyond the precision, every run length", (rmax + 1) as usize, |r| {
        let mut t = Tally::default();
        let n = pow10(r as u64 + 1);
        let two64: BigInt = BigInt::one() << 64usize;
        let factors: Vec<BigInt> = vec![BigInt::from(1), BigInt::from(3), pow10(19) + 7, &two64 + 1, big("1234567890123456789012345678901234567")];
        let mut qs: Vec<BigInt> = vec![pow10(pl as u64 - 1), pow10(pl as u64) - 1, big(&filler_digits(run.seed(), pl as u64, pl as usize))];
        qs.push(&qs[2] - 1);
        for q in qs.iter() {
            for f in factors.iter() {
                for pm in [-1i64, 1] {
                    for d in [0i64, 1, -1] {
                        let inner: BigInt = (q * 2 + 1) * &n + pm;
                        let a: BigInt = f * inner + d;
                        let b: BigInt = f * 2 * &n * pow10(pl as u64 + 3);
                        t.states += 1;
                        t.nontrivial += 4;
                        check_dec(&run, &Dec { n: a.clone(), s: 0 }, &Dec { n: b.clone(), s: 0 }, &forms, &mut t);
                        check_dec(&run, &Dec { n: -a, s: 7 }, &Dec { n: b, s: -2 }, &forms, &mut t);
                    }
                }
            }
        }
        t
    });

    // S3f: quotients one unit of the NUMERATOR away from an exact tie, for divisors of every length class (far beyond
    // the precision, on both sides of 64*64 bits and of the big-multiplication switches): a = (2Q+1)*d -+ 1, b = 2*d
    // gives Q.4 9^L.. / Q.5 / Q.5 0^L 1 with L about the divisor's length - a reciprocal-based or doubly rounded
    // quotient cannot tell these apart unless it works to the divisor's full length
    let dl: Vec<usize> = tier.pick(vec![40, 100, 101, 200, 300, 617, 1232, 1233, 1234, 1235, 1300, 2000, 3000], vec![40, 100, 101, 200, 300, 617, 1232, 1233, 1234, 1235, 1300, 2000, 3000, 5000, 10_000, 20_000]);
    run.bound("S3f_divisor_lengths", json!(dl));
    run.par("S3f neighbours of exact ties, long divisors", dl.len(), |i| {
        let mut t = Tally::default();
        let l = dl[i];
        let dens: Vec<BigInt> = vec![big(&filler_digits(run.seed(), 9100 + l as u64, l)), pow10(l as u64 - 1) + 1, pow10(l as u64) - 1];
        let mut qs: Vec<BigInt> = vec![pow10(pl as u64 - 1), pow10(pl as u64) - 1, big(&filler_digits(run.seed(), 9300, pl as usize))];
        qs.push(&qs[2] + 1);
        for d in dens.iter() {
            for q in qs.iter() {
                for pm in [-1i64, 0, 1] {
                    let a: BigInt = (q * 2 + 1) * d + pm;
                    let b: BigInt = d * 2;
                    t.states += 1;
                    t.nontrivial += 4;
                    check_dec(&run, &Dec { n: a.clone(), s: 0 }, &Dec { n: b.clone(), s: 0 }, &forms, &mut t);
                    check_dec(&run, &Dec { n: -a, s: 9 }, &Dec { n: b, s: -4 }, &forms, &mut t);
                }
            }
        }
        t
    });

    // S3g: EVERY small numerator 1..=nmax over divisors far longer than the precision (on both sides of 64*64 bits):
    // the quotients' digits beyond the precision are spread evenly, so a quotient computed with g guard digits too
    // few is wrong for about 10^-g of the numerators - nmax is chosen so that two guard digits cannot hide
    let nmax_g: u64 = tier.pick(6000, 200_000);
    let gl: Vec<usize> = vec![120, 1230, 1240, 1300, 2500];
    run.bound("S3g_numerators", format!("1..={} over divisors of {:?} digits", nmax_g, gl));
    run.par("S3g every small numerator over long divisors", gl.len() * 40, |i| {
        let mut t = Tally::default();
        let l = gl[i / 40];
        let den = Dec { n: big(&filler_digits(run.seed(), 9500 + l as u64, l)), s: 17 };
        let xb = bd(&den);
        let forms1 = &forms[..1];
        let mut n = (i % 40) as u64 + 1;
        while n <= nmax_g {
            let a = Dec { n: BigInt::from(n), s: 0 };
            t.states += 1;
            t.nontrivial += 1;
            let _ = &xb;
            check_dec(&run, &a, &den, forms1, &mut t);
            n += 40;
        }
        t
    });

    // S3e: quotients with a prescribed digit string INSIDE the precision: prefix | d | 9^r (or 0^r) | tail for every
    // run length r, every leading digit d of the run, prefixes of several lengths; every digit comes out of the
    // digit loop (quotient < 1) and the divisor carries a long factor, so any per-digit estimate is exercised on
    // "digit followed by a long run of nines / zeros"
    let r3e: u64 = tier.pick(45, 90);
    run.bound("S3e_run_lengths", format!("0..={}", r3e));
    run.par("S3e digit runs inside the precision", (r3e + 1) as usize, |r| {
        let mut t = Tally::default();
        let two64: BigInt = BigInt::one() << 64usize;
        let factors: Vec<BigInt> = vec![BigInt::from(1), BigInt::from(7), pow10(19) + 7, &two64 - 1, (&two64 << 3usize) + 5, big("12345678901234567890") * &two64 + (&two64 - 1)];
        for prefix in ["", "7", "12345", "739000000000000000000000000001"] {
            for d in [1u8, 4, 8, 9] {
                for fill in ['9', '0'] {
                    for tail in ["12", "5", "99999999999999999999999951"] {
                        let digits = format!("{}{}{}{}", prefix, d, fill.to_string().repeat(r), tail);
                        let tnum = big(&digits);
                        let l = digits.len() as u64;
                        for f in factors.iter() {
                            for extra in [0i64, 1] {
                                // a / b = 0.<digits>... : a = T*f + extra, b = f * 10^l
                                let a: BigInt = &tnum * f + extra;
                                let b: BigInt = f * pow10(l);
                                t.states += 1;
                                t.nontrivial += 4;
                                check_dec(&run, &Dec { n: a, s: 0 }, &Dec { n: b, s: 0 }, &forms, &mut t);
                            }
                        }
                    }
                }
            }
        }
        t
    });

    // S3b: remainders next to den/2 at the rounding position, with long numerator tails:
    // a = (q*den + r)*10^k + t,  r in {floor(den/2), floor(den/2)+1},  t around 10^k/2
    let mut s3b: Vec<(Dec, Dec)> = vec![];
    let two64: BigInt = BigInt::one() << 64usize;
    let dens: Vec<BigInt> = vec![BigInt::from(3), BigInt::from(7), BigInt::from(999), pow10(20) + 39, &two64 + 1, &two64 - 1, (&two64 << 3usize) + 5, pow10(40) - 1];
    for den in dens.iter() {
        for qlen in [pl - 1, pl, pl + 1, pl + 21] {
            for (_, qd) in patterns(qlen, run.seed()).into_iter().take(3) {
                let q = big(&qd);
                let half: BigInt = den / 2;
                for r in [half.clone(), &half + 1, BigInt::from(0), den - 1] {
                    for k in [0u64, 1, 40, 150, 300, 700] {
                        let p10 = pow10(k);
                        let ts: Vec<BigInt> = if k == 0 { vec![BigInt::from(0)] } else { vec![BigInt::from(0), &p10 / 2 - 1, &p10 / 2, &p10 / 2 + 1, &p10 - 1] };
                        for t in ts {
                            let a = (&q * den + &r) * &p10 + t;
                            s3b.push((Dec { n: a.clone(), s: k as i128 }, Dec { n: den.clone(), s: 0 }));
                            s3b.push((Dec { n: -a, s: 3 }, Dec { n: den.clone(), s: 5 }));
                        }
                    }
                }
            }
        }
    }
    run.bound("S3b_near_half_cases", s3b.len());
    run.par("S3b near-half remainders, long numerator tails", s3b.len(), |i| {
        let mut t = Tally::default();
        t.states += 1;
        t.nontrivial += 4;
        check_dec(&run, &s3b[i].0, &s3b[i].1, &forms, &mut t);
        t
    });

    // S4: |a| << |b| and >>; equal unscaled integers with different scales
    let lens: Vec<usize> = tier.pick(vec![1, 19, 20, 300], vec![1, 19, 20, 99, 100, 101, 300, 2000]);
    run.bound("S4_digit_lengths", json!(lens));
    let mut s4: Vec<(Dec, Dec)> = vec![];
    for &la in &lens {
        for &lb in &lens {
            let a = big(&filler_digits(run.seed(), la as u64 + 1000, la));
            let b = big(&filler_digits(run.seed(), lb as u64 + 2000, lb));
            for (sa, sb) in [(0i128, 0i128), (40, -3), (-7, 12)] {
                s4.push((Dec { n: a.clone(), s: sa }, Dec { n: b.clone(), s: sb }));
                s4.push((Dec { n: -a.clone(), s: sa }, Dec { n: b.clone(), s: sb }));
            }
            s4.push((Dec { n: a.clone(), s: 5 }, Dec { n: a.clone(), s: -5 }));
            s4.push((Dec { n: a.clone(), s: 0 }, Dec { n: -a.clone(), s: 30 }));
        }
    }
    run.par("S4 magnitude gaps, equal integers", s4.len(), |i| {
        let mut t = Tally::default();
        t.states += 1;
        t.nontrivial += 4;
        check_dec(&run, &s4[i].0, &s4[i].1, &forms, &mut t);
        t
    });

    // S4b: structured operands (word limits, word-crossing products, digit patterns at every length, carry
    // chains, all-ones words) as numerators and as divisors
    let st = structured_ints(tier.pick(60, 200), tier.pick(24, 60), run.seed());
    run.bound("S4b_structured_integers", st.len());
    run.par("S4b structured operands", st.len(), |i| {
        let mut t = Tally::default();
        let x = &st[i];
        let two64 = BigInt::from(1) << 64usize;
        let others: Vec<BigInt> = vec![BigInt::from(1), BigInt::from(-1), BigInt::from(2), BigInt::from(3), BigInt::from(7), BigInt::from(16), BigInt::from(125), BigInt::from(999_983), &two64 - 1, &two64 + 1, pow10(19), x + 1, x.clone()];
        for y in others.iter() {
            for (sa, sb) in [(0i128, 0i128), (5, 0), (0, 5), (-3, 2)] {
                t.states += 2;
                t.nontrivial += 8;
                check_dec(&run, &Dec { n: x.clone(), s: sa }, &Dec { n: y.clone(), s: sb }, &forms, &mut t);
                check_dec(&run, &Dec { n: y.clone(), s: sa }, &Dec { n: -x.clone(), s: sb }, &forms, &mut t);
            }
        }
        t
    });

    // S7: call histories of length two: a division straight after another division on the same thread, every ordered
    // pair of a small set of (dividend, divisor); division is pure, so the second quotient is judged by the model
    // whatever came first
    let hpairs: Vec<(Dec, Dec)> = vec![
        (Dec::new(1, 0), Dec::new(3, 0)), (Dec::new(2, 0), Dec::new(3, 0)), (Dec::new(1, 0), Dec::new(7, 0)), (Dec::new(-22, 0), Dec::new(7, 1)), (Dec::new(1, 0), Dec::new(8, 0)),
        (Dec::new(10, 0), Dec::new(3, 0)), (Dec::new(1, 5), Dec::new(3, -5)), (Dec { n: pow10(40) + 1, s: 0 }, Dec::new(3, 0)), (Dec::new(1, 0), Dec { n: pow10(19) + 7, s: 0 }), (Dec::new(3, 0), Dec::new(1, 0)),
    ];
    run.bound("S7_history_pairs", hpairs.len() * hpairs.len());
    run.par("S7 call histories of length two", hpairs.len(), |i| {
        let mut t = Tally::default();
        let (pa, pb) = (bd(&hpairs[i].0), bd(&hpairs[i].1));
        for (a, b) in hpairs.iter() {
            t.states += 1;
            t.nontrivial += 4;
            for form in forms.iter() {
                let _ = guard(|| &pa / &pb);
                AFTER.with(|c| *c.borrow_mut() = Some(json!({"a": hpairs[i].0.show(), "b": hpairs[i].1.show()})));
                check_dec(&run, a, b, &[*form], &mut t);
                AFTER.with(|c| *c.borrow_mut() = None);
            }
        }
        t
    });

    // S5: primitive forms (value oracle and zero divisors of every overload)
    let mut tys: Vec<&str> = INT_TYPES.to_vec();
    tys.extend(["f32", "f64"]);
    run.par("S5 primitive overloads (9 per type x 12 types)", tys.len(), |i| {
        let t = run_prim(&run, tys[i], None);
        run.sample(|| json!({"kind": "prim", "type": tys[i], "form": "V/=T", "x": "12345e-2", "prim": "0e0"}));
        t
    });

    // S6: zero-divisor matrix for the decimal forms (incl. zero numerators)
    run.seq("S6 zero-divisor matrix (decimal forms)", || {
        let mut t = Tally::default();
        zero_matrix(&run, &mut t);
        t
    });
    // the whole exploration once more against the subject built under a non-default compile-time configuration
    // (mc/variants/cfg_alt/build.env: HalfUp, precision 34, Display thresholds 3 / 9, padding limit 50)
    run.bound("build_variants", "default configuration (this process) + cfg_alt (child process, same domain)");
    run.variant("cfg_alt");
    run.finish();
}

fn zero_matrix(run: &Run, t: &mut Tally) {
    let forms = dec_forms();
    for num in [Dec::new(5, 0), Dec::new(0, 0), Dec::new(0, 3), Dec::new(100, 2), Dec::new(-7, -2), Dec { n: pow10(40), s: 0 }] {
        for zs in [0i128, 5, -5] {
            let z = Dec::new(0, zs);
            let (xa, xz) = (bd(&num), bd(&z));
            t.states += 1;
            for (name, f) in forms.iter() {
                t.transitions += 1;
                t.nontrivial += 1;
                if let Ok(r) = guard(|| f(&xa, &xz)) {
                    let case = json!({"kind": "zero", "form": name, "a": num.show(), "b": z.show()});
                    run.report(attrs(Violation::new(&format!("div {}", name), "no_panic", case, "panic (division by zero)", show(&r)), name, &num, &z));
                }
            }
        }
    }
    let _ = BigInt::zero();
}
