//! C05 — parsing yields exactly the denoted number, rejects all else, never panics.
use bigdecimal::{BigDecimal, Num};
use props::alpha::limit_spellings;
use props::conv::*;
use props::engine::*;
use serde_json::{json, Value};
use spec::numeral::expected_parse;
use spec::*;
use std::str::FromStr;

const ENTRIES: [&str; 4] = ["from_str", "str::parse", "from_str_radix(10)", "parse_bytes(10)"];

fn run_entry(entry: &str, bytes: &[u8], radix: u32) -> Option<Dec> {
    // parse_bytes is the only entry point that accepts non-UTF-8 input
    if entry.starts_with("parse_bytes") {
        return BigDecimal::parse_bytes(bytes, radix).map(|x| dec(&x));
    }
    let s = std::str::from_utf8(bytes).expect("entry point needs UTF-8");
    match entry {
        "from_str" => BigDecimal::from_str(s).ok().map(|x| dec(&x)),
        "str::parse" => s.parse::<BigDecimal>().ok().map(|x| dec(&x)),
        _ => <BigDecimal as Num>::from_str_radix(s, radix).ok().map(|x| dec(&x)),
    }
}

fn expected(bytes: &[u8], radix: u32) -> Option<Dec> {
    if radix != 10 {
        return None;
    }
    std::str::from_utf8(bytes).ok().and_then(expected_parse)
}

fn case_json(entry: &str, bytes: &[u8], radix: u32) -> Value {
    match std::str::from_utf8(bytes) {
        Ok(s) if s.len() <= 200 => json!({"entry": entry, "text": s, "radix": radix}),
        _ => json!({"entry": entry, "bytes": bytes, "radix": radix}),
    }
}

fn show_opt(d: &Option<Dec>) -> String {
    match d {
        Some(d) => format!("Ok({})", clip(&d.show())),
        None => "error value".into(),
    }
}
fn clip(s: &str) -> String {
    if s.len() > 120 {
        format!("{}…({} chars)", &s[..60], s.len())
    } else {
        s.into()
    }
}

fn check(entry: &str, bytes: &[u8], radix: u32) -> Option<Violation> {
    let want = expected(bytes, radix);
    let got = guard(|| run_entry(entry, bytes, radix));
    let mk = |class: &str, obs: String| {
        let txt = String::from_utf8_lossy(bytes);
        Violation::new(&format!("parse {}", entry), class, case_json(entry, bytes, radix), show_opt(&want), obs)
            .attr("entry", entry)
            .attr("len", bytes.len())
            .attr("sign_after_point", txt.contains(".+") || txt.contains(".-"))
    };
    match got {
        Err(p) => Some(mk("panic", p)),
        Ok(g) => {
            if g == want {
                None
            } else {
                let class = match (&want, &g) {
                    (None, Some(_)) => "accepted",
                    (Some(_), None) => "rejected",
                    _ => "wrong_value",
                };
                Some(mk(class, show_opt(&g)))
            }
        }
    }
}

fn replay(case: &Value) -> Vec<Violation> {
    let entry = case["entry"].as_str().unwrap();
    let radix = case["radix"].as_u64().unwrap() as u32;
    let bytes: Vec<u8> = match case.get("text") {
        Some(t) => t.as_str().unwrap().as_bytes().to_vec(),
        None => case["bytes"].as_array().unwrap().iter().map(|b| b.as_u64().unwrap() as u8).collect(),
    };
    check(entry, &bytes, radix).into_iter().collect()
}

/// enumerate every string over `alphabet` (symbols may be multi-byte) of exactly `len` symbols that
/// starts with the symbols `prefix`
fn for_each_suffix(alphabet: &[&[u8]], prefix: &[usize], len: usize, f: &mut dyn FnMut(&[u8])) {
    let k = alphabet.len();
    let free = len - prefix.len();
    let mut idx = vec![0usize; free];
    let mut buf: Vec<u8> = Vec::with_capacity(len * 4);
    loop {
        buf.clear();
        for &p in prefix {
            buf.extend_from_slice(alphabet[p]);
        }
        for &i in idx.iter() {
            buf.extend_from_slice(alphabet[i]);
        }
        f(&buf);
        // increment
        let mut pos = free;
        loop {
            if pos == 0 {
                return;
            }
            pos -= 1;
            idx[pos] += 1;
            if idx[pos] < k {
                break;
            }
            idx[pos] = 0;
        }
    }
}

/// all strings of length <= max_len, sharded by their first two symbols
fn exhaust(run: &Run, name: &str, alphabet: &[&[u8]], max_len: usize, entries: &[&str]) {
    let k = alphabet.len();
    // item 0: lengths 0 and 1; items 1..=k*k: two-symbol prefixes
    run.par(name, 1 + k * k, |item| {
        let mut t = Tally::default();
        let mut visit = |bytes: &[u8]| {
            t.states += 1;
            let want_some = expected(bytes, 10).is_some();
            if want_some {
                t.nontrivial += 1;
            }
            for e in entries {
                t.transitions += 1;
                if let Some(v) = check(e, bytes, 10) {
                    run.report(v);
                }
            }
        };
        if item == 0 {
            visit(b"");
            for a in alphabet {
                visit(a);
            }
        } else {
            let p = [(item - 1) / k, (item - 1) % k];
            for len in 2..=max_len {
                for_each_suffix(alphabet, &p, len, &mut visit);
            }
            if item % 17 == 3 {
                run.sample(|| {
                    let mut b = vec![];
                    b.extend_from_slice(alphabet[p[0]]);
                    b.extend_from_slice(alphabet[p[1]]);
                    b.extend_from_slice(alphabet[0]);
                    case_json(entries[0], &b, 10)
                });
            }
        }
        t
    });
}

fn grammar_product() -> Vec<String> {
    let signs = ["", "+", "-"];
    let d19 = "1234567890123456789";
    let d20 = "12345678901234567890";
    let d1000: String = "7".repeat(1000);
    let ints: Vec<String> = vec!["".into(), "0".into(), "7".into(), d19.into(), d20.into(), d1000.clone(), "1_000".into(), "00012".into(), "_1".into(), "1_".into()];
    let fracs: Vec<String> = vec!["".into(), ".".into(), ".5".into(), ".000".into(), format!(".{}", d1000), "._5".into(), ".5_".into(), ".+5".into(), ".-5".into(), ".5.5".into()];
    let two63 = "9223372036854775808";
    let exps: Vec<String> = vec![
        "".into(),
        "e0".into(),
        "E+5".into(),
        "e-5".into(),
        "e9223372036854775807".into(),
        "e-9223372036854775807".into(),
        format!("e{}", two63),
        format!("e-{}", two63),
        "e9223372036854775809".into(),
        "e-9223372036854775809".into(),
        "e9223372036854775810".into(),
        "e-9223372036854775810".into(),
        "e170141183460469231731687303715884105727".into(),
        "e170141183460469231731687303715884105728".into(),
        "e-170141183460469231731687303715884105728".into(),
        "e-170141183460469231731687303715884105729".into(),
        "e1234567890123456789012345678901234567890".into(),
        "e".into(),
        "e+".into(),
        "e_5".into(),
        "e5_".into(),
        "e5e5".into(),
        "e+-5".into(),
        "e 5".into(),
    ];
    let mut out = vec![];
    for s in signs {
        for i in &ints {
            for f in &fracs {
                for e in &exps {
                    out.push(format!("{}{}{}{}", s, i, f, e));
                }
            }
        }
    }
    out.sort();
    out.dedup();
    out
}

fn main() {
    let (run, inv) = Run::start("C05");
    if let Invocation::Replay(f) = &inv {
        run.replay(f, replay);
    }
    let tier = run.tier();
    run.rule("E1: every string of length <= L over {0,1,7,+,-,.,e,E,_,x,space} through 4 entry points; E2: every string of <= 6 symbols over {1,_,.,e,-,+,é,٣,NUL}; E3: every byte string of <= 6 bytes over {'1','.','e','-',0xC3,0xA9,0xFF,0x80} through parse_bytes; E4/E5: grammar product of long numerals x radices; oracle = the model automaton's verdict and denotation; non-trivial = strings the model accepts (a value must be produced and compared); strings are distinct by construction");
    run.assume("error values are only required to be Err/None, their payload is not compared");

    let a1: Vec<&[u8]> = vec![b"0", b"1", b"7", b"+", b"-", b".", b"e", b"E", b"_", b"x", b" "];
    let l1: usize = tier.pick(8, 9);
    run.bound("E1_alphabet", "0 1 7 + - . e E _ x space");
    run.bound("E1_max_len", l1);
    exhaust(&run, "E1 all strings over Sigma1", &a1, l1, &ENTRIES);

    let a2: Vec<&[u8]> = vec![b"1", b"_", b".", b"e", b"-", b"+", "é".as_bytes(), "٣".as_bytes(), b"\0"];
    let l2: usize = tier.pick(6, 7);
    run.bound("E2_alphabet", "1 _ . e - + é ٣ NUL");
    run.bound("E2_max_len", l2);
    exhaust(&run, "E2 all strings over Sigma2", &a2, l2, &ENTRIES);

    let a3: Vec<&[u8]> = vec![b"1", b".", b"e", b"-", &[0xC3], &[0xA9], &[0xFF], &[0x80]];
    let l3: usize = tier.pick(6, 7);
    run.bound("E3_bytes", "'1' '.' 'e' '-' 0xC3 0xA9 0xFF 0x80");
    run.bound("E3_max_len", l3);
    exhaust(&run, "E3 all byte strings (parse_bytes)", &a3, l3, &["parse_bytes(10)"]);

    let gp = grammar_product();
    run.bound("E4_strings", gp.len());
    run.par("E4 grammar product (long numerals, extreme exponents)", gp.len(), |i| {
        let mut t = Tally::default();
        t.states += 1;
        let b = gp[i].as_bytes();
        if expected(b, 10).is_some() {
            t.nontrivial += 1;
        }
        for e in ENTRIES {
            t.transitions += 1;
            if let Some(v) = check(e, b, 10) {
                run.report(v);
            }
        }
        if i % 500 == 0 {
            run.sample(|| case_json("from_str", b, 10));
        }
        t
    });
    // E13: long zero runs in the digit fields x exponents that put the resulting SCALE at the ends of the i64 range.
    // For a mantissa with f fraction digits the exponent is chosen as f - S for every target scale S within
    // {0, 1, 2, z-1, z, z+1, 1000, 2000, 5000} of i64::MIN and i64::MAX and up to z+1 beyond them: a numeral is valid
    // exactly when its own scale fits, whatever intermediate scale an implementation passes through.
    let zl: Vec<usize> = vec![0, 1, 18, 19, 20, 63, 64, 65, 255, 256, 257, 1023, 1024, 1025, 2047, 2048, 2049, 3000, 4095, 4096, 4097, tier.pick(5000, 70_000)];
    run.bound("E13_zero_runs", json!(zl));
    run.par("E13 zero runs x scales at the i64 limits", zl.len(), |zi| {
        let mut t = Tally::default();
        let z = zl[zi];
        let zeros = "0".repeat(z);
        let mants: Vec<(String, i128)> = vec![
            (format!("7{}", zeros), 0),
            (format!("-1.23{}", zeros), 2 + z as i128),
            (format!("7{}.5", zeros), 1),
            (format!("{}7", zeros), 0),
            (format!("0.{}7", zeros), 1 + z as i128),
            (format!("+9{}.{}", zeros, zeros), z as i128),
            (format!("1_{}", "0_".repeat(z)), 0),
        ];
        let ds: Vec<i128> = vec![0, 1, 2, z as i128 - 1, z as i128, z as i128 + 1, 1000, 2000, 5000];
        for (m, f) in mants.iter() {
            let mut exps: Vec<i128> = vec![];
            for &d in ds.iter() {
                for lim in [i64::MIN as i128, i64::MAX as i128] {
                    for sc in [lim + d, lim - d] {
                        exps.push(f - sc);
                    }
                }
            }
            exps.sort();
            exps.dedup();
            for e in exps {
                for es in [format!("e{}", e), format!("E{:+}", e)] {
                    let txt = format!("{}{}", m, es);
                    let b = txt.as_bytes();
                    t.states += 1;
                    if expected(b, 10).is_some() {
                        t.nontrivial += 1;
                    }
                    for en in ENTRIES {
                        t.transitions += 1;
                        if let Some(v) = check(en, b, 10) {
                            run.report(v);
                        }
                    }
                }
            }
        }
        t
    });
    // E6: exhaustive mutation neighbourhoods of valid numerals: every single and every double insertion, and
    // every single substitution, of a symbol from {+ - . _ e E é ٣ NUL space x 1} at every position
    let bases: Vec<&str> = vec!["0", "7", "-1", "+12", "1.5", "-0.25", "1e5", "1.5e-3", "12_345.678_9", ".5", "5.", "1E+10", "123456789012345678901234567890", "0.000", "1e9223372036854775807", "-1.0e-9223372036854775807"];
    let syms: Vec<&str> = vec!["+", "-", ".", "_", "e", "E", "é", "٣", "\0", " ", "x", "1"];
    run.bound("E6_bases", json!(bases));
    run.bound("E6_symbols", "+ - . _ e E é ٣ NUL space x 1");
    run.par("E6 mutation neighbourhoods (1 and 2 insertions, 1 substitution)", bases.len(), |bi| {
        let mut t = Tally::default();
        let base: Vec<char> = bases[bi].chars().collect();
        let mut visit = |text: &str| {
            t.states += 1;
            if expected(text.as_bytes(), 10).is_some() {
                t.nontrivial += 1;
            }
            for e in ["from_str", "parse_bytes(10)"] {
                t.transitions += 1;
                if let Some(v) = check(e, text.as_bytes(), 10) {
                    run.report(v);
                }
            }
        };
        let build = |ins: &[(usize, &str)], sub: Option<(usize, &str)>| -> String {
            let mut out = String::new();
            for i in 0..=base.len() {
                for (pos, sym) in ins {
                    if *pos == i {
                        out.push_str(sym);
                    }
                }
                if i < base.len() {
                    match sub {
                        Some((p, sym)) if p == i => out.push_str(sym),
                        _ => out.push(base[i]),
                    }
                }
            }
            out
        };
        for i in 0..=base.len() {
            for a in syms.iter() {
                visit(&build(&[(i, a)], None));
                if i < base.len() {
                    visit(&build(&[], Some((i, a))));
                }
                for j in i..=base.len() {
                    for b in syms.iter() {
                        visit(&build(&[(i, a), (j, b)], None));
                    }
                }
            }
        }
        run.sample(|| case_json("from_str", build(&[(1, "_"), (2, "é")], None).as_bytes(), 10));
        t
    });

    // E7: every single-byte substitution (all 256 byte values, every position) in digit strings of length
    // 1..=24, bare, signed, with a point at every position, and with an exponent: the full byte alphabet at
    // mutation radius 1 (reaches word-at-a-time digit tests, non-ASCII bytes, control characters)
    let mut e7: Vec<String> = vec![];
    let digits = "123456789012345678901234";
    for l in 1..=24usize {
        let d = &digits[..l];
        e7.push(d.to_string());
        e7.push(format!("-{}", d));
        e7.push(format!("{}e5", d));
        for dot in 0..=l {
            if l <= 10 || dot == 0 || dot == l || dot == 8 || dot == l / 2 {
                e7.push(format!("{}.{}", &d[..dot], &d[dot..]));
            }
        }
    }
    run.bound("E7_base_numerals", e7.len());
    run.par("E7 all single-byte substitutions", e7.len(), |bi| {
        let mut t = Tally::default();
        let base = e7[bi].as_bytes().to_vec();
        for pos in 0..base.len() {
            for b in 0..=255u8 {
                let mut m = base.clone();
                m[pos] = b;
                t.states += 1;
                if expected(&m, 10).is_some() {
                    t.nontrivial += 1;
                }
                t.transitions += 1;
                if let Some(v) = check("parse_bytes(10)", &m, 10) {
                    run.report(v);
                }
                if std::str::from_utf8(&m).is_ok() {
                    t.transitions += 1;
                    if let Some(v) = check("from_str", &m, 10) {
                        run.report(v);
                    }
                }
            }
        }
        t
    });

    // E8: numerals whose integer or fraction digits spell a machine-word limit (2^32, 2^64, 2^128, ... -2..+9)
    let lim = limit_spellings();
    run.bound("E8_limit_spellings", lim.len());
    run.par("E8 word-limit spellings as integer / fraction digits", lim.len(), |i| {
        let mut t = Tally::default();
        let d = &lim[i];
        let mut forms: Vec<String> = vec![d.clone(), format!("{}.", d), format!(".{}", d), format!("0.{}", d), format!("{}.{}", d, d), format!("1.{}", d), format!("{}e5", d), format!("0.{}e-7", d), format!("{}_{}", d, d), format!("0.000{}", d), format!("9.{}9", d)];
        let signed: Vec<String> = forms.iter().map(|f| format!("-{}", f)).collect();
        forms.extend(signed);
        for f in forms {
            t.states += 1;
            t.nontrivial += 1;
            for e in ENTRIES {
                t.transitions += 1;
                if let Some(v) = check(e, f.as_bytes(), 10) {
                    run.report(v);
                }
            }
        }
        t
    });

    // E10: numerals spelled from the structured integers (word limits, word-crossing products, the digit
    // patterns at every length, carry chains, all-ones words) in every position of a numeral
    let st = props::alpha::structured_ints(tier.pick(80, 300), tier.pick(24, 60), 1);
    run.bound("E10_structured_integers", st.len());
    run.par("E10 structured digit strings", st.len(), |i| {
        let mut t = Tally::default();
        let d = st[i].to_string();
        let h = d.len() / 2;
        let mut forms: Vec<String> = vec![d.clone(), format!("{}.", d), format!(".{}", d), format!("0.{}", d), format!("{}.{}", &d[..h], &d[h..]), format!("{}e5", d), format!("{}E-{}", d, d.len()), format!("0.{}e-7", d), format!("{}_", d), format!("1e{}", d), format!("1e-{}", d), format!("+{}", d)];
        let signed: Vec<String> = forms.iter().filter(|f| !f.starts_with('+')).map(|f| format!("-{}", f)).collect();
        forms.extend(signed);
        for f in forms {
            t.states += 1;
            t.nontrivial += 1;
            for e in ENTRIES {
                t.transitions += 1;
                if let Some(v) = check(e, f.as_bytes(), 10) {
                    run.report(v);
                }
            }
        }
        t
    });

    // E12: zero-padded fields of every length: leading zeros in the exponent, in the integer part and after the
    // point (valid numerals whose TEXT is long while the number is small): a parser may bound a field by the
    // length its value needs, never by the length of its spelling
    let pad_max: usize = tier.pick(130, 600);
    run.bound("E12_zero_padding", format!("0..={}", pad_max));
    run.par("E12 zero-padded exponents and digit fields", pad_max + 1, |z| {
        let mut t = Tally::default();
        let zs = "0".repeat(z);
        let forms: Vec<String> = vec![
            format!("1.5e{}3", zs), format!("1.5e+{}3", zs), format!("-25E-{}17", zs), format!("7e{}0", zs), format!("7e-{}", if z == 0 { "0".to_string() } else { zs.clone() }),
            format!("{}12.5", zs), format!("-{}12.5e3", zs), format!("0.{}5", zs), format!("{}.{}", zs, zs), format!("1_{}e{}9", zs, zs), format!("3e{}9223372036854775807", zs), format!("3e-{}9223372036854775808", zs),
            format!("3e{}9223372036854775808", zs),
        ];
        for f in forms {
            t.states += 1;
            t.nontrivial += 1;
            for e in ENTRIES {
                t.transitions += 1;
                if let Some(v) = check(e, f.as_bytes(), 10) {
                    run.report(v);
                }
            }
        }
        t
    });

    // E8b: the word-limit spellings with the decimal point at EVERY position (and an exponent): a numeral whose digits
    // are accumulated in machine words overflows on the digits, wherever the point stands
    run.par("E8b word-limit spellings, point at every position", lim.len(), |i| {
        let mut t = Tally::default();
        let d = &lim[i];
        for pos in 0..=d.len() {
            for (sign, exp) in [("", ""), ("-", ""), ("", "e3"), ("+", "E-7")] {
                let f = format!("{}{}.{}{}", sign, &d[..pos], &d[pos..], exp);
                t.states += 1;
                t.nontrivial += 1;
                for e in ENTRIES {
                    t.transitions += 1;
                    if let Some(v) = check(e, f.as_bytes(), 10) {
                        run.report(v);
                    }
                }
            }
        }
        t
    });

    // E9: long inputs of every outcome class (valid, scale overflow, i128 overflow, second dot, underscores)
    // with a multi-byte character inserted at / substituted for every position: no byte offset computed from
    // the length may ever be used to slice the input
    let multi: Vec<&str> = vec!["é", "٣", "€", "😀"];
    let mut e9: Vec<String> = vec![];
    for l in [18usize, 19, 20, 37, 38, 39, 57, 63, 64, 65, 66, 76, 95, 100, 128, 130, 257] {
        let d: String = (0..l).map(|i| char::from(b'1' + (i % 9) as u8)).collect();
        e9.push(d.clone());
        e9.push(format!("{}e99999999999999999999", d));
        e9.push(format!("{}e-9223372036854775809", d));
        e9.push(format!("{}e999999999999999999999999999999999999999999", d));
        e9.push(format!("{}.{}", &d[..l / 2], &d[l / 2..]));
        e9.push(format!("{}.{}.5", &d[..l / 2], &d[l / 2..]));
        e9.push(format!("-{}_{}", &d[..l / 2], &d[l / 2..]));
    }
    run.bound("E9_long_bases", e9.len());
    run.par("E9 multi-byte characters at every position of long inputs", e9.len(), |bi| {
        let mut t = Tally::default();
        let base: Vec<char> = e9[bi].chars().collect();
        for pos in 0..=base.len() {
            for m in multi.iter() {
                for subst in [false, true] {
                    if subst && pos == base.len() {
                        continue;
                    }
                    let mut s = String::new();
                    for (i, c) in base.iter().enumerate() {
                        if i == pos {
                            s.push_str(m);
                            if subst {
                                continue;
                            }
                        }
                        s.push(*c);
                    }
                    if pos == base.len() {
                        s.push_str(m);
                    }
                    t.states += 1;
                    for e in ENTRIES {
                        t.transitions += 1;
                        if let Some(v) = check(e, s.as_bytes(), 10) {
                            run.report(v);
                        }
                    }
                }
            }
        }
        t
    });

    // E11: very long numerals with ONE structural character (+ - . e _ and a digit) inserted at / substituted
    // for EVERY position: a long digit string may be converted in pieces, and then every piece boundary is a
    // place where a sign, a point or an underscore could be swallowed or mis-attributed
    let e11_lens: Vec<usize> = tier.pick(vec![70, 300, 1030, 2100, 4100, 8300], vec![70, 300, 1030, 2100, 4100, 8300, 16500, 33000]);
    let e11_chars: [u8; 6] = [b'+', b'-', b'.', b'e', b'_', b'7'];
    let mut e11: Vec<(usize, usize)> = vec![]; // (length index, block of positions)
    for (li, &l) in e11_lens.iter().enumerate() {
        for blk in 0..=(l / 64) {
            e11.push((li, blk));
        }
    }
    run.bound("E11_lengths", json!(e11_lens));
    run.par("E11 one structural character at every position of very long numerals", e11.len(), |bi| {
        let (li, blk) = e11[bi];
        let l = e11_lens[li];
        let mut t = Tally::default();
        let digits: Vec<u8> = (0..l).map(|i| b'1' + ((i * 7 + 3) % 9) as u8).collect();
        for base_kind in 0..2 {
            // plain digits; or digits with a point at one third
            let mut base = digits.clone();
            if base_kind == 1 {
                base[l / 3] = b'.';
            }
            for pos in (blk * 64)..((blk + 1) * 64).min(l + 1) {
                for &c in e11_chars.iter() {
                    for subst in [false, true] {
                        if subst && pos == l {
                            continue;
                        }
                        let mut s: Vec<u8> = Vec::with_capacity(l + 1);
                        s.extend_from_slice(&base[..pos]);
                        s.push(c);
                        s.extend_from_slice(&base[pos + subst as usize..]);
                        t.states += 1;
                        for e in ["from_str", "parse_bytes"] {
                            t.transitions += 1;
                            if let Some(v) = check(e, &s, 10) {
                                run.report(v);
                            }
                        }
                    }
                }
            }
        }
        t
    });

    let radices = [0u32, 1, 2, 8, 9, 11, 16, 36, 37, u32::MAX];
    run.bound("E5_radices", json!(radices));
    run.par("E5 radix other than 10", gp.len(), |i| {
        let mut t = Tally::default();
        t.states += 1;
        let b = gp[i].as_bytes();
        for r in radices {
            for e in ["from_str_radix(10)", "parse_bytes(10)"] {
                t.transitions += 1;
                let entry = if e.starts_with("parse") { "parse_bytes(r)" } else { "from_str_radix(r)" };
                if let Some(mut v) = check(e, b, r) {
                    v.site = format!("parse {}", entry);
                    run.report(v);
                }
            }
        }
        t
    });
    run.finish();
}
