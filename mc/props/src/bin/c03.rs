//! C03 — Hash agrees with equality.
use bigdecimal::BigDecimal;
use num_bigint::BigInt;
use num_traits::Zero;
use props::alpha::*;
use props::conv::*;
use props::engine::*;
use serde_json::{json, Value};
use spec::*;
use std::collections::HashSet;
use std::hash::{Hash, Hasher};
use std::str::FromStr;

/// Records every call made on the Hasher, byte for byte and call by call
#[derive(Default, Clone, PartialEq, Eq, Debug)]
struct Recorder {
    calls: Vec<(u8, Vec<u8>)>,
}
macro_rules! rec {
    ($name:ident, $t:ty, $tag:expr) => {
        fn $name(&mut self, i: $t) {
            self.calls.push(($tag, i.to_le_bytes().to_vec()));
        }
    };
}
impl Hasher for Recorder {
    fn finish(&self) -> u64 {
        0
    }
    fn write(&mut self, bytes: &[u8]) {
        self.calls.push((0, bytes.to_vec()));
    }
    rec!(write_u8, u8, 1);
    rec!(write_u16, u16, 2);
    rec!(write_u32, u32, 3);
    rec!(write_u64, u64, 4);
    rec!(write_u128, u128, 5);
    rec!(write_usize, usize, 6);
    rec!(write_i8, i8, 7);
    rec!(write_i16, i16, 8);
    rec!(write_i32, i32, 9);
    rec!(write_i64, i64, 10);
    rec!(write_i128, i128, 11);
    rec!(write_isize, isize, 12);
}

/// a word-at-a-time multiplicative hasher (FxHash style): sensitive to how bytes are split across calls
#[derive(Default)]
struct Fx(u64);
impl Hasher for Fx {
    fn finish(&self) -> u64 {
        self.0
    }
    fn write(&mut self, bytes: &[u8]) {
        for chunk in bytes.chunks(8) {
            let mut w = [0u8; 8];
            w[..chunk.len()].copy_from_slice(chunk);
            self.0 = (self.0.rotate_left(5) ^ u64::from_le_bytes(w)).wrapping_mul(0x517cc1b727220a95);
        }
    }
}

#[derive(Clone, PartialEq, Eq, Debug)]
struct Obs {
    rec: Recorder,
    sip_default: u64,
    sip13: u64,
    fx: u64,
}

fn observe(x: &BigDecimal) -> Obs {
    let mut r = Recorder::default();
    x.hash(&mut r);
    let mut d = std::collections::hash_map::DefaultHasher::new();
    x.hash(&mut d);
    let mut s = siphasher::sip::SipHasher13::new_with_keys(7, 11);
    x.hash(&mut s);
    let mut f = Fx::default();
    x.hash(&mut f);
    Obs { rec: r, sip_default: d.finish(), sip13: s.finish(), fx: f.finish() }
}

/// members: value-equal representations; each must hash like the first
fn check_family(run: &Run, members: &[Dec], t: &mut Tally) {
    t.states += 1;
    let case = |m: &Dec| json!({"reference": members[0].show(), "member": m.show()});
    let xs: Vec<BigDecimal> = members.iter().map(bd).collect();
    let first = match guard(|| observe(&xs[0])) {
        Ok(o) => o,
        Err(p) => {
            run.report(Violation::new("Hash::hash", "panic", case(&members[0]), "no panic", p));
            return;
        }
    };
    t.transitions += 4;
    for (m, x) in members.iter().zip(xs.iter()).skip(1) {
        t.transitions += 4;
        t.nontrivial += 1;
        debug_assert!(m.eq_val(&members[0]));
        match guard(|| observe(x)) {
            Err(p) => run.report(Violation::new("Hash::hash", "panic", case(m), "no panic", p).attr("scale", m.s.to_string())),
            Ok(o) => {
                if o != first {
                    let what = if o.rec != first.rec { "different data fed to the Hasher" } else { "different hash value" };
                    run.report(
                        Violation::new("Hash::hash", "hash_differs", case(m), format!("{:?}", first.rec.calls), format!("{}: {:?}", what, o.rec.calls))
                            .attr("scale", m.s.to_string())
                            .attr("zero", m.n.is_zero()),
                    );
                }
            }
        }
    }
    // the user-level consequence: the family collapses to one element of a HashSet
    t.transitions += 1;
    match guard(|| {
        let mut set: HashSet<BigDecimal> = HashSet::new();
        for x in xs.iter() {
            set.insert(x.clone());
        }
        (set.len(), xs.iter().all(|x| set.contains(x)))
    }) {
        Ok((1, true)) => {}
        Ok((n, all)) => run.report(Violation::new("HashSet<BigDecimal>", "no_collision", json!({"reference": members[0].show(), "member": members.last().unwrap().show(), "family": members.iter().map(|m| m.show()).collect::<Vec<_>>()}), "1 element", format!("{} elements, all found: {}", n, all))),
        Err(p) => run.report(Violation::new("HashSet<BigDecimal>", "panic", case(&members[0]), "no panic", p)),
    }
}

fn family(base: &Dec, ks: impl Iterator<Item = u64>) -> Vec<Dec> {
    ks.map(|k| Dec { n: &base.n * pow10(k), s: base.s + k as i128 }).collect()
}

fn replay(case: &Value) -> Vec<Violation> {
    let mut out = vec![];
    // a recorded family (HashSet collapse): every member against the first
    if let Some(fam) = case.get("family").and_then(|f| f.as_array()) {
        let xs: Vec<BigDecimal> = fam.iter().map(|m| bd(&jd(m))).collect();
        let set: HashSet<BigDecimal> = xs.iter().cloned().collect();
        if set.len() != 1 || !xs.iter().all(|x| set.contains(x)) {
            out.push(Violation::new("HashSet<BigDecimal>", "no_collision", case.clone(), "1 element", format!("{} elements", set.len())));
        }
        return out;
    }
    // a recorded pair of sequences "[a, b, c]": slice hashing of element-wise value-equal sequences
    let seq = |v: &Value| -> Option<Vec<BigDecimal>> {
        let t = v.as_str()?;
        let t = t.strip_prefix('[')?.strip_suffix(']')?;
        Some(t.split(", ").map(|e| bd(&Dec::parse(e).expect("bad sequence element"))).collect())
    };
    if let (Some(ra), Some(rb)) = (seq(&case["reference"]), seq(&case["member"])) {
        let record = |xs: &[BigDecimal]| -> (Vec<(u8, Vec<u8>)>, u64) {
            let mut r = Recorder::default();
            xs.hash(&mut r);
            let mut d = std::collections::hash_map::DefaultHasher::new();
            xs.to_vec().hash(&mut d);
            (r.calls, d.finish())
        };
        match (guard(|| record(&ra)), guard(|| record(&rb))) {
            (Ok(wa), Ok(wb)) if wa == wb => {}
            (Ok(wa), Ok(wb)) => out.push(Violation::new("Hash::hash_slice", "hash_differs", case.clone(), format!("{:?}", wa.1), format!("{:?}", wb.1))),
            (Err(p), _) | (_, Err(p)) => out.push(Violation::new("Hash::hash_slice", "panic", case.clone(), "no panic", p)),
        }
        return out;
    }
    let (a, b) = (jd(&case["reference"]), jd(&case["member"]));
    let (xa, xb) = (bd(&a), bd(&b));
    match (guard(|| observe(&xa)), guard(|| observe(&xb))) {
        (Ok(oa), Ok(ob)) => {
            // value-equal pairs, and pairs that `==` calls equal (S7), must hash alike
            if (a.eq_val(&b) || xa == xb) && oa != ob {
                out.push(Violation::new("Hash::hash", "hash_differs", case.clone(), format!("{:?}", oa.rec.calls), format!("{:?}", ob.rec.calls)).attr("scale", b.s.to_string()).attr("zero", b.n.is_zero()));
            }
            let mut set = HashSet::new();
            set.insert(xa.clone());
            set.insert(xb.clone());
            if a.eq_val(&b) && set.len() != 1 {
                out.push(Violation::new("HashSet<BigDecimal>", "no_collision", case.clone(), "1 element", format!("{} elements", set.len())));
            }
        }
        (Err(p), _) | (_, Err(p)) => out.push(Violation::new("Hash::hash", "panic", case.clone(), "no panic", p)),
    }
    out
}

fn main() {
    let (run, inv) = Run::start("C03");
    if let Invocation::Replay(f) = &inv {
        run.replay(f, replay);
    }
    let tier = run.tier();
    run.rule("families of value-equal representations {(n*10^k, s+k)}; every member must feed a call-by-call identical stream to a recording Hasher (hence identical SipHash-2-4/1-3 and Fx-style hashes) and the family must collapse in a HashSet; non-trivial = a member that differs in representation from the family's reference; families are distinct by construction (distinct normalised bases)");
    run.assume("a Hasher may distinguish different splits of the same bytes across write calls, so the call sequence is compared, not only the concatenation");
    let nmax: i64 = tier.pick(3000, 300_000);
    let kmax: u64 = tier.pick(8, 30);
    let smax: i128 = tier.pick(6, 9);
    run.bound("S1_unscaled_max", nmax);
    run.bound("S1_scales", format!("-{0}..={0}", smax));
    run.bound("S1_extra_trailing_zeros", kmax);

    // S1: every base n (not divisible by 10) in range, scales -6..6, members with k = 0..kmax extra zeros
    run.par("S1 small-scope families", (nmax + 1) as usize, |i| {
        let mut t = Tally::default();
        if i == 0 || i % 10 == 0 {
            return t;
        }
        for sign in [1i64, -1] {
            for s in -smax..=smax {
                let base = Dec::new(i as i64 * sign, s);
                check_family(&run, &family(&base, 0..=kmax), &mut t);
            }
        }
        if i % 1111 == 1 {
            run.sample(|| json!({"reference": Dec::new(i as i64, -2).show(), "member": Dec::new(i as i64 * 1000, 1).show()}));
        }
        t
    });

    // S2: zero-run alphabet: n = d*10^z, scales -25..25, k in {0,1,19,20,21}
    let ds: [i64; 6] = [1, 12, 105, 1005, -7, 90909];
    run.par("S2 zero-run alphabet", 26, |z| {
        let mut t = Tally::default();
        for d in ds {
            for s in -25i128..=25 {
                // the same value written three ways: zeros inside the integer, zeros as negative scale, extra zeros
                let base = Dec::new(d, s - z as i128);
                let mut members = vec![base.clone(), Dec { n: &base.n * pow10(z as u64), s }];
                for k in [1u64, 19, 20, 21] {
                    members.push(Dec { n: &base.n * pow10(z as u64 + k), s: s + k as i128 });
                }
                check_family(&run, &members, &mut t);
            }
        }
        t
    });

    // S3: zeros with any scale, constructed from +0, from "-0" text, and from arithmetic
    run.seq("S3 zeros", || {
        let mut t = Tally::default();
        let mut xs: Vec<BigDecimal> = vec![];
        let mut scales: Vec<i64> = vec![0, 1, -1, 2, -2, 25, -25, 1000, -1000];
        scales.extend([100_000, -100_000]);
        for s in scales.iter() {
            xs.push(bdn(0, *s));
            xs.push(bdn(BigInt::from(0) * BigInt::from(-1), *s));
        }
        for txt in ["0", "-0", "+0", "0.000", "-0.000", "0e5", "-0e5", "0e-5", "-0E-7", "00", "-00.0"] {
            xs.push(BigDecimal::from_str(txt).unwrap());
        }
        let five = bdn(5, 3);
        xs.push(&five - &five);
        xs.push(bdn(-5, -3) + bdn(5, -3));
        xs.push(bdn(7, 2) * bdn(0, -9));
        let first = observe(&xs[0]);
        t.states += 1;
        for x in xs.iter() {
            t.transitions += 4;
            t.nontrivial += 1;
            let m = dec(x);
            match guard(|| observe(x)) {
                Ok(o) if o == first => {}
                Ok(o) => run.report(Violation::new("Hash::hash", "hash_differs", json!({"reference": "0e0", "member": m.show()}), format!("{:?}", first.rec.calls), format!("{:?}", o.rec.calls)).attr("scale", m.s.to_string()).attr("zero", true)),
                Err(p) => run.report(Violation::new("Hash::hash", "panic", json!({"reference": "0e0", "member": m.show()}), "no panic", p)),
            }
        }
        let set: HashSet<BigDecimal> = xs.iter().cloned().collect();
        if set.len() != 1 {
            run.report(Violation::new("HashSet<BigDecimal>", "no_collision", json!({"reference": "0e0", "member": "0e-5", "family": xs.iter().map(|x| dec(x).show()).collect::<Vec<_>>()}), "1 element", format!("{} elements", set.len())));
        }
        run.sample(|| json!({"reference": "0e0", "member": "0e100000"}));
        t
    });

    // S4: long digit strings and |scale| up to 10^5 (the hash materialises zeros)
    let lens: &[usize] = if tier.is_thorough() { &LONG_LENS_THOROUGH } else { &LONG_LENS_QUICK };
    let longs = long_ints(lens, run.seed());
    run.bound("S4_lengths", json!(lens));
    run.par("S4 long operands, large scales", longs.len(), |i| {
        let mut t = Tally::default();
        let n = Dec { n: longs[i].1.clone(), s: 0 }.norm().n;
        for sign in [1, -1] {
            for s in [0i128, 3, -3, 40, -40, 100_000, -100_000] {
                let base = Dec { n: &n * sign, s };
                let mut ks: Vec<u64> = vec![0, 1, 2, 19, 20, 21, 590];
                if s == -100_000 {
                    ks.push(100_000);
                }
                check_family(&run, &family(&base, ks.into_iter()), &mut t);
            }
        }
        t
    });
    // S6: structured bases (word limits, products crossing word limits, patterns at every length, carry chains,
    // all-ones words) with k extra zeros on both sides of the u64 power-of-ten limit
    let st = structured_ints(tier.pick(80, 300), tier.pick(24, 60), run.seed());
    run.bound("S6_structured_integers", st.len());
    run.par("S6 structured families", st.len(), |i| {
        let mut t = Tally::default();
        let n = Dec { n: st[i].clone(), s: 0 }.norm().n;
        for sign in [1, -1] {
            for s in [0i128, 2, -2, 25, -25] {
                let base = Dec { n: &n * sign, s };
                check_family(&run, &family(&base, [0u64, 1, 2, 9, 18, 19, 20, 21, 40].into_iter()), &mut t);
            }
        }
        t
    });
    // S7: the implication itself on pairs that are NOT built equal: near-equal pairs (a value-equal pair with one
    // word or one decimal digit of the longer coefficient changed).  Whatever `==` answers, if it says "equal"
    // the hashes must agree and a HashSet must find one through the other; the answer of `==` itself is C02.
    let mut nb: Vec<BigInt> = (1i64..=12).chain([52, 99, 1000]).map(BigInt::from).collect();
    nb.extend([(BigInt::from(1) << 32usize) + 1, (BigInt::from(1) << 64usize) - 1, (BigInt::from(1) << 64usize) + 10, pow10(19) + 7, big(&filler_digits(run.seed(), 40, 40))]);
    let mut ne = near_equal_pairs(tier.pick(40, 60), &nb);
    ne.extend(near_equal_pairs_extended(run.seed()));
    run.bound("S7_near_equal_pairs", ne.len());
    run.par("S7 a == b implies equal hashes (near-equal pairs)", (ne.len() + 255) / 256, |blk| {
        let mut t = Tally::default();
        for (a, b) in ne[blk * 256..((blk + 1) * 256).min(ne.len())].iter() {
            let (xa, xb) = (bd(a), bd(b));
            t.states += 1;
            t.transitions += 2;
            let case = json!({"reference": a.show(), "member": b.show()});
            match guard(|| (xa == xb, xb == xa, xa.to_ref() == xb.to_ref())) {
                Err(p) => run.report(Violation::new("PartialEq::eq", "panic", case, "no panic", p)),
                Ok((false, false, false)) => {}
                Ok(_) => {
                    t.nontrivial += 1;
                    match guard(|| (observe(&xa), observe(&xb))) {
                        Ok((oa, ob)) if oa == ob => {}
                        Ok((oa, ob)) => run.report(Violation::new("Hash::hash", "hash_differs", case, format!("== holds, so equal hashes: {:?}", oa.rec.calls), format!("{:?}", ob.rec.calls)).attr("scale", b.s.to_string()).attr("eq_but_not_value_equal", true)),
                        Err(p) => run.report(Violation::new("Hash::hash", "panic", case, "no panic", p)),
                    }
                }
            }
        }
        t
    });
    // S8: interior zero runs of every length x every number of extra trailing zeros: the digits 1 0^r 1 (and
    // 12 0^r 345) written with k = 0..K extra zeros, at scales that put the run before / across / after the point;
    // any block-wise treatment of zeros is aligned differently in each member of the family
    let rmax8: usize = tier.pick(80, 200);
    let kmax8: u64 = tier.pick(70, 140);
    run.bound("S8_interior_zero_runs", format!("1..={}", rmax8));
    run.bound("S8_extra_trailing_zeros", format!("0..={}", kmax8));
    run.par("S8 interior zero runs x extra trailing zeros", rmax8, |ri| {
        let r = ri + 1;
        let mut t = Tally::default();
        for (head, tail) in [("1", "1"), ("12", "345")] {
            let n = big(&format!("{}{}{}", head, "0".repeat(r), tail));
            for s in [(r + tail.len()) as i128, 3, -2, (r + tail.len() + 40) as i128] {
                for sign in [1, -1] {
                    let base = Dec { n: &n * sign, s };
                    check_family(&run, &family(&base, 0..=kmax8), &mut t);
                }
            }
        }
        t
    });
    // S5: slices / Vec of decimals: element-wise value-equal sequences must feed identical data too
    // (Hash::hash_slice is part of the same trait impl)
    let seq_pool: Vec<Vec<Dec>> = vec![
        family(&Dec::new(3, -2), [0u64, 1, 2, 5].into_iter()),
        family(&Dec::new(5, -6), [0u64, 3, 6, 8].into_iter()),
        family(&Dec::new(-12, 0), [0u64, 1, 19, 20].into_iter()),
        family(&Dec::new(7, 3), [0u64, 1, 2, 3].into_iter()),
        vec![Dec::new(0, 0), Dec::new(0, 4), Dec::new(0, -4), Dec::new(0, 1)],
        family(&Dec::new(1, -1), [0u64, 1, 2, 30].into_iter()),
    ];
    run.par("S5 slices of value-equal elements", seq_pool.len() * seq_pool.len(), |ij| {
        let (i, j) = (ij / seq_pool.len(), ij % seq_pool.len());
        let mut t = Tally::default();
        // every pair (and with a third element) of representations vs the reference representations
        let record = |xs: &[BigDecimal]| -> (Vec<(u8, Vec<u8>)>, u64) {
            let mut r = Recorder::default();
            xs.hash(&mut r);
            let mut d = std::collections::hash_map::DefaultHasher::new();
            xs.to_vec().hash(&mut d);
            (r.calls, d.finish())
        };
        let reference = vec![bd(&seq_pool[i][0]), bd(&seq_pool[j][0]), bd(&seq_pool[i][0])];
        let want = guard(|| record(&reference));
        for a in seq_pool[i].iter() {
            for b in seq_pool[j].iter() {
                for c in seq_pool[i].iter() {
                    t.states += 1;
                    t.transitions += 2;
                    t.nontrivial += 1;
                    let xs = vec![bd(a), bd(b), bd(c)];
                    let got = guard(|| record(&xs));
                    if got != want {
                        run.report(Violation::new("Hash::hash_slice", "hash_differs", json!({"reference": format!("[{}, {}, {}]", seq_pool[i][0].show(), seq_pool[j][0].show(), seq_pool[i][0].show()), "member": format!("[{}, {}, {}]", a.show(), b.show(), c.show())}), format!("{:?}", want.as_ref().map(|w| w.1)), format!("{:?}", got.as_ref().map(|w| w.1))));
                    }
                }
            }
        }
        t
    });
    let _ = BigInt::zero();
    run.finish();
}
