//! C02 — equality and ordering are those of the numeric values.
use bigdecimal::BigDecimal;
use num_bigint::{BigInt, BigUint};
use num_traits::{One, Signed, Zero};
use props::alpha::*;
use props::conv::*;
use props::engine::*;
use serde_json::{json, Value};
use spec::*;
use std::cmp::Ordering;

fn case_json(a: &Dec, b: &Dec) -> Value {
    json!({"a": a.show(), "b": b.show()})
}

/// All predicates on one ordered pair; `want` is the model's ordering of the values.
/// Fast path: everything under one guard; on any disagreement or panic, fall back to `diagnose`.
#[inline]
fn check_pair(run: &Run, xa: &BigDecimal, xb: &BigDecimal, a: &Dec, b: &Dec, want: Ordering, t: &mut Tally) {
    t.transitions += 13;
    let r = guard(|| {
        let (ra, rb) = (xa.to_ref(), xb.to_ref());
        let c = xa.cmp(xb);
        let mx = std::cmp::max(xa, xb);
        let mn = std::cmp::min(xa, xb);
        let ok_max = match want {
            Ordering::Greater => std::ptr::eq(mx, xa) && std::ptr::eq(mn, xb),
            Ordering::Less => std::ptr::eq(mx, xb) && std::ptr::eq(mn, xa),
            Ordering::Equal => true,
        };
        c == want
            && (xa == xb) == (want == Ordering::Equal)
            && (xa != xb) == (want != Ordering::Equal)
            && (xa < xb) == (want == Ordering::Less)
            && (xa <= xb) == (want != Ordering::Greater)
            && (xa > xb) == (want == Ordering::Greater)
            && (xa >= xb) == (want != Ordering::Less)
            && xa.partial_cmp(xb) == Some(want)
            && ok_max
            && (ra == rb) == (want == Ordering::Equal)
            && ra.cmp(&rb) == want
            && ra.partial_cmp(&rb) == Some(want)
            && (ra == xb) == (want == Ordering::Equal)
    });
    if r != Ok(true) {
        for v in diagnose(xa, xb, a, b, want) {
            run.report(v);
        }
    }
}

fn diagnose(xa: &BigDecimal, xb: &BigDecimal, a: &Dec, b: &Dec, want: Ordering) -> Vec<Violation> {
    let mut out = vec![];
    let gap = (a.s - b.s).abs();
    let mut one = |site: &str, expected: String, got: Result<String, String>| {
        let (class, obs) = match got {
            Ok(s) if s == expected => return,
            Ok(s) => ("wrong_value", s),
            Err(p) => ("panic", p),
        };
        out.push(
            Violation::new(site, class, case_json(a, b), expected, obs)
                .attr("gap", gap.to_string())
                .attr("digits_a", ndigits(&a.n))
                .attr("digits_b", ndigits(&b.n))
                .attr("value_equal", want == Ordering::Equal),
        );
    };
    let eq = want == Ordering::Equal;
    one("BigDecimal::eq", eq.to_string(), guard(|| (xa == xb).to_string()));
    one("BigDecimal::ne", (!eq).to_string(), guard(|| (xa != xb).to_string()));
    one("BigDecimal::cmp", format!("{:?}", want), guard(|| format!("{:?}", xa.cmp(xb))));
    one("BigDecimal::partial_cmp", format!("{:?}", Some(want)), guard(|| format!("{:?}", xa.partial_cmp(xb))));
    one("BigDecimal::lt", (want == Ordering::Less).to_string(), guard(|| (xa < xb).to_string()));
    one("BigDecimal::le", (want != Ordering::Greater).to_string(), guard(|| (xa <= xb).to_string()));
    one("BigDecimal::gt", (want == Ordering::Greater).to_string(), guard(|| (xa > xb).to_string()));
    one("BigDecimal::ge", (want != Ordering::Less).to_string(), guard(|| (xa >= xb).to_string()));
    one("BigDecimalRef::eq", eq.to_string(), guard(|| (xa.to_ref() == xb.to_ref()).to_string()));
    one("BigDecimalRef::eq(&BigDecimal)", eq.to_string(), guard(|| (xa.to_ref() == xb).to_string()));
    one("BigDecimalRef::cmp", format!("{:?}", want), guard(|| format!("{:?}", xa.to_ref().cmp(&xb.to_ref()))));
    one("BigDecimalRef::partial_cmp", format!("{:?}", Some(want)), guard(|| format!("{:?}", xa.to_ref().partial_cmp(&xb.to_ref()))));
    let want_max = match want {
        Ordering::Greater => "a",
        Ordering::Less => "b",
        Ordering::Equal => "either",
    };
    let got_max = guard(|| {
        let mx = std::cmp::max(xa, xb);
        let mn = std::cmp::min(xa, xb);
        let m = if std::ptr::eq(mx, xa) { "a" } else { "b" };
        let n = if std::ptr::eq(mn, xa) { "a" } else { "b" };
        if want_max == "either" || (m == want_max && n != want_max) {
            want_max.to_string()
        } else {
            format!("max={} min={}", m, n)
        }
    });
    one("Ord::max/min", want_max.to_string(), got_max);
    out
}

fn full_check(run: &Run, a: &Dec, b: &Dec, t: &mut Tally) {
    let (xa, xb) = (bd(a), bd(b));
    let want = cmp_val(&a.n, a.s, &b.n, b.s);
    check_pair(run, &xa, &xb, a, b, want, t);
    check_pair(run, &xb, &xa, b, a, want.reverse(), t);
    t.states += 2;
}

fn replay(case: &Value) -> Vec<Violation> {
    if let Some(views) = case.get("views").and_then(|v| v.as_array()) {
        // two views of ONE object
        let x = jd(&case["object"]);
        let xb = bd(&x);
        let r = xb.to_ref();
        let view = |name: &str| match name {
            "r" => r,
            "-r" => -r,
            "r.abs()" => r.abs(),
            _ => -(-r),
        };
        let (va, vb) = (view(views[0].as_str().unwrap()), view(views[1].as_str().unwrap()));
        let (da, db) = (jd(&case["a"]), jd(&case["b"]));
        let want = cmp_val(&da.n, da.s, &db.n, db.s);
        let exp = (want, want == Ordering::Equal, Some(want), want == Ordering::Less);
        return match guard(|| (va.cmp(&vb), va == vb, va.partial_cmp(&vb), va < vb)) {
            Ok(o) if o == exp => vec![],
            Ok(o) => vec![Violation::new("views of one object", "wrong_value", case.clone(), format!("{:?}", exp), format!("{:?}", o))],
            Err(e) => vec![Violation::new("views of one object", "panic", case.clone(), "no panic", e)],
        };
    }
    let (a, b) = (jd(&case["a"]), jd(&case["b"]));
    let want = cmp_val(&a.n, a.s, &b.n, b.s);
    diagnose(&bd(&a), &bd(&b), &a, &b, want)
}

fn limbs_to_int(limbs: &[u32]) -> BigInt {
    BigInt::from(BigUint::new(limbs.to_vec()))
}

fn main() {
    let (run, inv) = Run::start("C02");
    if let Invocation::Replay(f) = &inv {
        run.replay(f, replay);
    }
    let tier = run.tier();
    run.rule("every ordered pair of the operand sets x 13 predicates (== != < <= > >= cmp partial_cmp max/min on values; == cmp partial_cmp on refs; ref==&value) against the real-number order; non-trivial = pair whose scales differ (an alignment or a digit-wise comparison is needed) or whose values are equal in different representations; pairs are distinct by construction within each sub-domain");
    run.assume("num-bigint integer arithmetic and decimal printing are correct (shared with the subject)");
    run.assume("overflow checks and debug assertions are on for the subject, so any profile-dependent arithmetic shows up as a panic");

    // ---- S1: all ordered pairs of a small-scope set -------------------------------------------
    let nmax: i64 = tier.pick(250, 1200);
    let smax: i64 = tier.pick(4, 5);
    run.bound("S1_unscaled_max", nmax);
    run.bound("S1_scales", format!("-{}..={}", smax, smax));
    let ops = small_decimals(nmax, -smax, smax);
    let xs: Vec<BigDecimal> = ops.iter().map(bd).collect();
    // exact value * 10^smax as i128 (fast model for this sub-domain; same meaning as cmp_val)
    let key: Vec<i128> = ops
        .iter()
        .map(|d| {
            let n: i128 = d.n.to_string().parse().unwrap();
            n * 10i128.pow((smax as i128 - d.s) as u32)
        })
        .collect();
    // self-check of the fast model against cmp_val on a diagonal band
    for i in 0..ops.len() {
        let j = (i * 7 + 3) % ops.len();
        assert_eq!(key[i].cmp(&key[j]), cmp_val(&ops[i].n, ops[i].s, &ops[j].n, ops[j].s));
    }
    run.par("S1 small-scope pairs", ops.len(), |i| {
        let mut t = Tally::default();
        t.states += 1;
        for j in 0..ops.len() {
            let want = key[i].cmp(&key[j]);
            if ops[i].s != ops[j].s {
                t.nontrivial += 1;
            }
            check_pair(&run, &xs[i], &xs[j], &ops[i], &ops[j], want, &mut t);
        }
        if i % 997 == 5 {
            run.sample(|| case_json(&ops[i], &ops[(i * 31) % ops.len()]));
        }
        t
    });
    // sort of the whole vector must agree with the model order
    run.seq("S1 sort", || {
        let mut t = Tally::default();
        let mut idx: Vec<usize> = (0..ops.len()).collect();
        let r = guard(|| {
            let mut v: Vec<(usize, &BigDecimal)> = xs.iter().enumerate().collect();
            v.sort_by(|p, q| p.1.cmp(q.1));
            v.iter().map(|p| p.0).collect::<Vec<_>>()
        });
        idx.sort_by(|&p, &q| key[p].cmp(&key[q]));
        t.transitions += 1;
        t.states += ops.len() as u64;
        match r {
            Ok(got) => {
                // stable sorts of value-equal elements coincide
                if got != idx {
                    let pos = got.iter().zip(idx.iter()).position(|(x, y)| x != y).unwrap();
                    run.report(Violation::new("slice::sort_by(cmp)", "wrong_value", json!({"op": "sort", "first_difference_at": pos, "a": ops[got[pos]].show(), "b": ops[idx[pos]].show()}), "model order", "different permutation"));
                }
            }
            Err(p) => run.report(Violation::new("slice::sort_by(cmp)", "panic", json!({"op": "sort"}), "no panic", p)),
        }
        t
    });

    // ---- S2: limb-boundary alphabet -----------------------------------------------------------
    // x built from 1..3 limbs drawn from {0,1,W-1,W,W+1,2^31,2^32-1}, W = floor(2^64/10^k) (and floor(2^32/10^k));
    // y = x*10^k + delta at scale k
    let ks: Vec<u64> = (1..=21).chain([38, 39]).collect();
    let nlimbs: usize = tier.pick(3, 4);
    run.bound("S2_gaps", json!(ks));
    run.bound("S2_limbs", nlimbs);
    run.par("S2 limb-boundary alphabet", ks.len(), |ki| {
        let k = ks[ki];
        let mut t = Tally::default();
        let p = pow10(k);
        let two64 = BigInt::one() << 64usize;
        let two32 = BigInt::one() << 32usize;
        let mut words: Vec<u32> = vec![0, 1, 2, 9, 1 << 31, u32::MAX, u32::MAX - 1];
        for w in [&two64 / &p, &two32 / &p, (&two64 / &p) >> 32usize, (&two64 % &p), &two64 / &p % &two32] {
            for d in [-1i64, 0, 1] {
                let v = &w + d;
                if v >= BigInt::zero() && v < two32 {
                    words.push(v.to_string().parse().unwrap());
                }
            }
        }
        words.sort();
        words.dedup();
        let nw = words.len();
        let mut total = 0usize;
        for len in 1..=nlimbs {
            total += nw.pow(len as u32);
        }
        let mut limbs: Vec<u32> = Vec::new();
        let mut c = 0usize;
        for len in 1..=nlimbs {
            for code in 0..nw.pow(len as u32) {
                limbs.clear();
                let mut cc = code;
                for _ in 0..len {
                    limbs.push(words[cc % nw]);
                    cc /= nw;
                }
                if *limbs.last().unwrap() == 0 {
                    continue;
                }
                c += 1;
                let x = limbs_to_int(&limbs);
                for delta in [-1i64, 0, 1] {
                    for neg in [false, true] {
                        let (xn, yn) = if neg { (-x.clone(), -(&x * &p + delta)) } else { (x.clone(), &x * &p + delta) };
                        let a = Dec { n: xn, s: 0 };
                        let b = Dec { n: yn, s: k as i128 };
                        t.nontrivial += 2;
                        full_check(&run, &a, &b, &mut t);
                    }
                }
            }
        }
        let _ = (total, c);
        run.sample(|| json!({"k": k, "words": words}));
        t
    });

    // ---- S3: operands within +-1 of 2^64 and 2^128 (and 2^32) against scale gaps 1..40 ---------
    run.par("S3 u64/u128 fast-path limits", 40, |gi| {
        let g = gi as u64 + 1;
        let mut t = Tally::default();
        let p = pow10(g);
        let mut bases: Vec<BigInt> = vec![];
        for e in [32usize, 63, 64, 127, 128] {
            for d in [-2i64, -1, 0, 1, 2] {
                bases.push((BigInt::one() << e) + d);
            }
        }
        let bases2 = bases.clone();
        for x in bases.iter() {
            // y*10^g close to x: y = floor(x/10^g) + {0,1}; and y = x, x*10^g +-1
            let mut cands: Vec<(BigInt, i128)> = vec![];
            let q = x / &p;
            for d in [0i64, 1] {
                cands.push((&q + d, -(g as i128)));
            }
            for d in [-1i64, 0, 1] {
                cands.push((x * &p + d, g as i128));
            }
            for y in bases2.iter() {
                cands.push((y.clone(), g as i128));
                cands.push((y.clone(), -(g as i128)));
            }
            for (yn, ys) in cands {
                for neg in [false, true] {
                    let a = Dec { n: if neg { -x.clone() } else { x.clone() }, s: 0 };
                    let b = Dec { n: if neg { -yn.clone() } else { yn.clone() }, s: ys };
                    t.nontrivial += 2;
                    full_check(&run, &a, &b, &mut t);
                }
            }
        }
        t
    });

    // ---- S4: scale alphabet including gaps that overflow i64 / u64 -----------------------------
    let scales: Vec<i64> = vec![i64::MIN, i64::MIN + 1, -(1 << 62), -(1i64 << 32), -21, -20, -19, -1, 0, 1, 19, 20, 21, 1 << 32, 1 << 62, i64::MAX - 1, i64::MAX];
    let mags: Vec<BigInt> = vec![BigInt::from(0), BigInt::from(1), BigInt::from(-1), BigInt::from(9), BigInt::from(-9), BigInt::from(10), BigInt::from(-10), pow10(19), -pow10(19), pow10(19) + 1];
    let mut ext: Vec<Dec> = vec![];
    for s in &scales {
        for n in &mags {
            ext.push(Dec { n: n.clone(), s: *s as i128 });
        }
    }
    run.bound("S4_scales", json!(scales.iter().map(|s| s.to_string()).collect::<Vec<_>>()));
    run.par("S4 extreme scales", ext.len(), |i| {
        let mut t = Tally::default();
        let xa = bd(&ext[i]);
        t.states += 1;
        for j in 0..ext.len() {
            let xb = bd(&ext[j]);
            let want = cmp_val(&ext[i].n, ext[i].s, &ext[j].n, ext[j].s);
            if ext[i].s != ext[j].s {
                t.nontrivial += 1;
            }
            check_pair(&run, &xa, &xb, &ext[i], &ext[j], want, &mut t);
        }
        run.sample(|| case_json(&ext[i], &ext[(i * 13 + 5) % ext.len()]));
        t
    });

    // ---- S5: neighbours (n, s) vs (n*10^g + d, s+g) for long n and every gap of G up to 610 ----
    let lens: &[usize] = if tier.is_thorough() { &LONG_LENS_THOROUGH } else { &LONG_LENS_QUICK };
    let longs = long_ints(lens, run.seed());
    let gs: Vec<u64> = gaps().into_iter().filter(|g| *g <= tier.pick(610, 10000) && *g > 0).collect();
    run.bound("S5_gaps", json!(gs));
    run.bound("S5_lengths", json!(lens));
    run.par("S5 long neighbours", gs.len(), |gi| {
        let g = gs[gi];
        let p = pow10(g);
        let mut t = Tally::default();
        for (_, n) in longs.iter() {
            for neg in [false, true] {
                for base_scale in [0i128, -3, 12] {
                    let sgn = if neg { -1 } else { 1 };
                    let a = Dec { n: n * sgn, s: base_scale };
                    for d in [-1i64, 0, 1] {
                        let b = Dec { n: (n * &p + d) * sgn, s: base_scale + g as i128 };
                        t.nontrivial += 2;
                        full_check(&run, &a, &b, &mut t);
                    }
                    // same digits, trailing zeros stripped on the other side
                    let an = a.norm();
                    if an.s != a.s {
                        t.nontrivial += 2;
                        full_check(&run, &a, &an, &mut t);
                    }
                }
            }
        }
        t
    });
    // ---- S6: word-level perturbations of value-equal pairs ------------------------------------------
    // the scaled comparison works on 32-bit words: besides value-equal pairs and +-1 neighbours, compare
    // A against B*10^k where A is the product with a word dropped, truncated, or changed by +-2^(32j)
    let bmax: u32 = tier.pick(400, 3000);
    run.bound("S6_B_max", bmax);
    run.par("S6 word-level perturbations", 21, |ki| {
        let k = ki as u64 + 1;
        let mut t = Tally::default();
        let p10 = pow10(k);
        let mut bs: Vec<BigInt> = (1..=bmax).map(BigInt::from).collect();
        for e in [31usize, 32, 33, 63, 64, 65, 95, 96, 127, 128] {
            for d in [-1i64, 0, 1, 7] {
                bs.push((BigInt::one() << e) + d);
            }
        }
        for b in bs.iter() {
            let prod = b * &p10;
            let words = ((prod.bits() + 31) / 32) as usize;
            let mut cands: Vec<BigInt> = vec![];
            for j in 1..=words {
                let w = BigInt::one() << (32 * j);
                cands.push(&prod % &w); // high words dropped
                cands.push(&prod + &w); // one more in word j
                if prod > w {
                    cands.push(&prod - &w);
                }
                cands.push(&prod >> (32 * j)); // low words dropped
            }
            cands.push(&prod + (BigInt::one() << 31usize));
            for a in cands {
                if a.is_zero() {
                    continue;
                }
                for neg in [false, true] {
                    let sg = if neg { -1 } else { 1 };
                    let x = Dec { n: &a * sg, s: k as i128 };
                    let y = Dec { n: b * sg, s: 0 };
                    t.nontrivial += 2;
                    full_check(&run, &x, &y, &mut t);
                }
            }
        }
        run.sample(|| json!({"a": "2705032704e-9", "b": "7e0"}));
        t
    });
    // ---- S8: structured operands against their value-equal twins and +-1 neighbours at gaps on both sides
    // of the u64 / u128 power-of-ten limits
    let st = structured_ints(tier.pick(80, 300), tier.pick(24, 60), run.seed());
    run.bound("S8_structured_integers", st.len());
    run.par("S8 structured operands", st.len(), |i| {
        let mut t = Tally::default();
        let x = &st[i];
        for g in [0u64, 1, 2, 9, 10, 18, 19, 20, 21, 37, 38, 39, 40] {
            let p = pow10(g);
            for sign in [1, -1] {
                for base_scale in [0i128, 4] {
                    let a = Dec { n: x * sign, s: base_scale };
                    for d in [-1i64, 0, 1] {
                        let b = Dec { n: (x * &p + d) * sign, s: base_scale + g as i128 };
                        t.nontrivial += 2;
                        full_check(&run, &a, &b, &mut t);
                    }
                }
            }
        }
        // against the next structured integer (neighbouring shapes, same scale and shifted)
        if i + 1 < st.len() {
            for (sa, sb) in [(0i128, 0i128), (1, 0), (0, 1), (0, 20)] {
                t.nontrivial += 2;
                full_check(&run, &Dec { n: x.clone(), s: sa }, &Dec { n: st[i + 1].clone(), s: sb }, &mut t);
                full_check(&run, &Dec { n: -x.clone(), s: sa }, &Dec { n: st[i + 1].clone(), s: sb }, &mut t);
            }
        }
        t
    });
    // ---- S9: near-equal pairs: a value-equal pair with ONE word or ONE decimal digit of the longer coefficient
    // changed, at every word index (to two words above the top) and every digit position
    let mut nb: Vec<BigInt> = (1i64..=12).chain([52, 99, 1000]).map(BigInt::from).collect();
    nb.extend([(BigInt::one() << 32usize) + 1, (BigInt::one() << 64usize) - 1, (BigInt::one() << 64usize) + 10, pow10(19) + 7, big(&filler_digits(run.seed(), 40, 40))]);
    let mut ne = near_equal_pairs(tier.pick(40, 60), &nb);
    ne.extend(near_equal_pairs_extended(run.seed()));
    run.bound("S9_near_equal_pairs", ne.len());
    run.par("S9 near-equal pairs (one word / one digit changed)", (ne.len() + 255) / 256, |blk| {
        let mut t = Tally::default();
        for (a, b) in ne[blk * 256..((blk + 1) * 256).min(ne.len())].iter() {
            t.nontrivial += 2;
            full_check(&run, a, b, &mut t);
        }
        t
    });
    // ---- S10: views of ONE object: r = x.to_ref(), -r, r.abs(), and the same through to_owned(): comparisons between
    // views that share their digits (pointer-equality shortcuts must still look at the sign and the scale)
    let alias: Vec<Dec> = vec![Dec::new(1, 0), Dec::new(-1, 0), Dec::new(12345, 3), Dec::new(-725, 2), Dec::new(0, 4), Dec { n: pow10(25) + 1, s: 10 }, Dec { n: -(BigInt::one() << 70usize), s: -3 }, Dec::new(5, -2)];
    run.bound("S10_aliased_operands", alias.len());
    run.seq("S10 views of one object", || {
        let mut t = Tally::default();
        for x in alias.iter() {
            let xb = bd(x);
            let r = xb.to_ref();
            let neg = x.neg();
            let abs = Dec { n: if x.n.sign() == num_bigint::Sign::Minus { -x.n.clone() } else { x.n.clone() }, s: x.s };
            t.states += 1;
            let views: Vec<(&str, bigdecimal::BigDecimalRef, &Dec)> = vec![("r", r, x), ("-r", -r, &neg), ("r.abs()", r.abs(), &abs), ("-(-r)", -(-r), x)];
            for (na, va, da) in views.iter() {
                for (nb, vb, db) in views.iter() {
                    t.transitions += 4;
                    t.nontrivial += 1;
                    let want = cmp_val(&da.n, da.s, &db.n, db.s);
                    let got = guard(|| (va.cmp(vb), va == vb, va.partial_cmp(vb), va < vb));
                    let exp = (want, want == Ordering::Equal, Some(want), want == Ordering::Less);
                    match got {
                        Ok(o) if o == exp => {}
                        Ok(o) => run.report(Violation::new("views of one object", "wrong_value", json!({"a": da.show(), "b": db.show(), "views": [na, nb], "object": x.show()}), format!("{:?}", exp), format!("{:?}", o))),
                        Err(e) => run.report(Violation::new("views of one object", "panic", json!({"a": da.show(), "b": db.show(), "views": [na, nb], "object": x.show()}), "no panic", e)),
                    }
                }
            }
        }
        t
    });
    // ---- S7: tightness of the bit-length pre-test ----------------------------------------------------
    // the scaled comparison first compares bits(a) with bits(b) + floor(g*log2 10); that estimate is tight
    // exactly when b is a power of two and a = b*10^g: every gap up to a bound, then the gaps up to 100000
    // at which 10^g lies closest below / above a power of two (the best rational approximations of log2 10)
    let gall: u64 = tier.pick(2500, 12000);
    let gfar: u64 = tier.pick(100_000, 330_000);
    let ktight: usize = tier.pick(5, 16);
    let mut tight: Vec<(u64, u64)> = vec![]; // (top 64 bits of 10^g, g)
    {
        // 192-bit truncated mantissa of 10^g (domain selection only; verdicts use exact integers)
        let mut m = BigUint::one() << 191usize;
        for g in 1..=gfar {
            m = m * 10u32;
            let extra = m.bits() - 192;
            m >>= extra;
            if g > gall {
                let top: u64 = (&m >> 128usize).to_string().parse().unwrap();
                tight.push((top, g));
            }
        }
    }
    tight.sort();
    let mut s7: Vec<u64> = (1..=gall).collect();
    s7.extend(tight.iter().take(ktight).map(|x| x.1));
    s7.extend(tight.iter().rev().take(ktight).map(|x| x.1));
    run.bound("S7_gaps", format!("1..={} and the {} gaps up to {} with 10^g closest above / below a power of two: {:?}", gall, ktight, gfar, &s7[gall as usize..]));
    run.par_opts("S7 bit-length estimate", s7.len(), 120, &|i| json!({"gap": s7[i]}), |i| {
        let g = s7[i];
        let far = g > gall;
        let p = pow10(g);
        let mut t = Tally::default();
        let ks: &[usize] = if far { &[0, 10] } else { &[0, 1, 10, 32, 64] };
        for &k in ks {
            for db in [0i64, 1, -1] {
                let b = (BigInt::one() << k) + db;
                if !b.is_positive() {
                    continue;
                }
                for d in [0i64, -1, 1] {
                    if far && db != 0 && d != 0 {
                        continue;
                    }
                    let a = &b * &p + d;
                    for neg in [false, true] {
                        if far && neg {
                            continue;
                        }
                        let sg = if neg { -1 } else { 1 };
                        let x = Dec { n: &a * sg, s: g as i128 };
                        let y = Dec { n: &b * sg, s: 0 };
                        t.nontrivial += 2;
                        if far {
                            // one comparison costs milliseconds here: the order, equality and one inequality
                            let (xa, xb) = (bd(&x), bd(&y));
                            let want = cmp_val(&x.n, x.s, &y.n, y.s);
                            t.states += 2;
                            t.transitions += 6;
                            let got = guard(|| (xa.cmp(&xb), xa == xb, xa < xb, xb.cmp(&xa), xb == xa, xb < xa));
                            let exp = (want, want == Ordering::Equal, want == Ordering::Less, want.reverse(), want == Ordering::Equal, want == Ordering::Greater);
                            match got {
                                Ok(o) if o == exp => {}
                                Ok(o) => run.report(Violation::new("cmp/==/< at a tight gap", "wrong_value", case_json(&x, &y), format!("{:?}", exp), format!("{:?}", o))),
                                Err(e) => run.report(Violation::new("cmp/==/< at a tight gap", "panic", case_json(&x, &y), "no panic", e)),
                            }
                        } else {
                            full_check(&run, &x, &y, &mut t);
                        }
                    }
                }
            }
        }
        t
    });
    run.finish();
}
