//! C18 — representation accessors and canonical form are faithful.
use bigdecimal::BigDecimal;
use num_bigint::{BigInt, Sign};
use num_traits::{Signed, Zero};
use props::alpha::*;
use props::conv::*;
use props::engine::*;
use serde_json::{json, Value};
use spec::*;

fn v(site: &str, class: &str, case: Value, exp: String, obs: String) -> Violation {
    Violation::new(site, class, case, exp, obs)
}

/// every accessor on a decimal built from the pair (n, s): the stored pair must come back verbatim
fn check_accessors(x: &Dec) -> Vec<Violation> {
    let mut out = vec![];
    let s = x.s as i64;
    let case = json!({"op": "accessors", "x": x.show()});
    let want_digits = ndigits(&x.n);
    let want_sign = x.n.sign();
    let r = guard(|| {
        let mut errs: Vec<(String, String, String)> = vec![];
        let ctors: Vec<(&str, BigDecimal)> = {
            let mut c = vec![("new", BigDecimal::new(x.n.clone(), s)), ("from_bigint", BigDecimal::from_bigint(x.n.clone(), s)), ("From<(BigInt,i64)>", BigDecimal::from((x.n.clone(), s)))];
            if !x.n.is_negative() {
                c.push(("from_biguint", BigDecimal::from_biguint(x.n.magnitude().clone(), s)));
            }
            if let Ok(small) = i64::try_from(&x.n) {
                c.push(("From<(i64,i64)>", BigDecimal::from((small, s))));
            }
            c
        };
        for (cname, b) in ctors {
            let mut e = |what: &str, want: String, got: String| {
                if want != got {
                    errs.push((format!("{} -> {}", cname, what), want, got));
                }
            };
            let pair = format!("({}, {})", x.n, s);
            let (n1, s1) = b.as_bigint_and_exponent();
            e("as_bigint_and_exponent", pair.clone(), format!("({}, {})", n1, s1));
            let (n2, s2) = b.as_bigint_and_scale();
            e("as_bigint_and_scale", pair.clone(), format!("({}, {})", n2, s2));
            let (n3, s3) = b.clone().into_bigint_and_scale();
            e("into_bigint_and_scale", pair.clone(), format!("({}, {})", n3, s3));
            let (n4, s4) = b.clone().into_bigint_and_exponent();
            e("into_bigint_and_exponent", pair.clone(), format!("({}, {})", n4, s4));
            e("digits", want_digits.to_string(), b.digits().to_string());
            e("sign", format!("{:?}", want_sign), format!("{:?}", b.sign()));
            e("fractional_digit_count", s.to_string(), b.fractional_digit_count().to_string());
            e("is_zero", x.n.is_zero().to_string(), b.is_zero().to_string());
            let rf = b.to_ref();
            e("ref count_digits", want_digits.to_string(), rf.count_digits().to_string());
            e("ref sign", format!("{:?}", want_sign), format!("{:?}", rf.sign()));
            e("ref fractional_digit_count", s.to_string(), rf.fractional_digit_count().to_string());
            e("ref is_zero", x.n.is_zero().to_string(), rf.is_zero().to_string());
            e("ref to_owned", pair.clone(), {
                let o = rf.to_owned();
                let (n, s) = o.as_bigint_and_exponent();
                format!("({}, {})", n, s)
            });
            // output parameter: every relation between the destination's previous contents and the new value
            // (unrelated, zero, the same value, the negated value, the same digits at another scale, negated views)
            let dests: Vec<(&str, BigDecimal)> = vec![
                ("77", BigDecimal::from(77)),
                ("0", BigDecimal::from(0)),
                ("same", b.clone()),
                ("negated", -b.clone()),
                ("same digits, scale+3", BigDecimal::new(x.n.clone(), s.saturating_add(3))),
                ("negated digits, scale-2", BigDecimal::new(-x.n.clone(), s.saturating_sub(2))),
                ("digits+1", BigDecimal::new(&x.n + 1, s)),
            ];
            for (dname, d0) in dests.iter() {
                e(&format!("ref clone_into (dest was {})", dname), pair.clone(), {
                    let mut dest = d0.clone();
                    rf.clone_into(&mut dest);
                    let (n, s) = dest.as_bigint_and_exponent();
                    format!("({}, {})", n, s)
                });
                e(&format!("negated ref clone_into (dest was {})", dname), format!("({}, {})", -x.n.clone(), s), {
                    let mut dest = d0.clone();
                    (-rf).clone_into(&mut dest);
                    let (n, s) = dest.as_bigint_and_exponent();
                    format!("({}, {})", n, s)
                });
                e(&format!("abs ref clone_into (dest was {})", dname), format!("({}, {})", x.n.abs(), s), {
                    let mut dest = d0.clone();
                    rf.abs().clone_into(&mut dest);
                    let (n, s) = dest.as_bigint_and_exponent();
                    format!("({}, {})", n, s)
                });
                e(&format!("clone_from (dest was {})", dname), pair.clone(), {
                    let mut dest = d0.clone();
                    dest.clone_from(&b);
                    let (n, s) = dest.as_bigint_and_exponent();
                    format!("({}, {})", n, s)
                });
            }
            let absn = x.n.abs();
            e("abs", format!("({}, {})", absn, s), {
                let (n, s) = b.abs().as_bigint_and_exponent();
                format!("({}, {})", n, s)
            });
            e("ref abs", format!("({}, {})", absn, s), {
                let (n, s) = rf.abs().to_owned().as_bigint_and_exponent();
                format!("({}, {})", n, s)
            });
            e("clone", pair.clone(), {
                let (n, s) = b.clone().as_bigint_and_exponent();
                format!("({}, {})", n, s)
            });
        }
        errs
    });
    match r {
        Err(p) => out.push(v("accessors", "panic", case, "no panic".into(), p)),
        Ok(errs) => {
            for (what, want, got) in errs {
                out.push(v(&format!("accessor {}", what), "wrong_value", case.clone(), want, got).attr("accessor", what.as_str()));
            }
        }
    }
    out
}

fn check_normalized(x: &Dec) -> Option<Violation> {
    let case = json!({"op": "normalized", "x": x.show()});
    let want = x.norm();
    match guard(|| bd(x).normalized()) {
        Err(p) => Some(v("normalized", "panic", case, want.show(), p)),
        Ok(r) => {
            let r = dec(&r);
            if r != want {
                let class = if r.eq_val(&want) { "not_canonical" } else { "wrong_value" };
                Some(v("normalized", class, case, want.show(), r.show()).attr("trailing_zeros", trailing_zeros10(&x.n)))
            } else {
                None
            }
        }
    }
}

/// powers of ten through the subject's three algorithms, and digit counting
fn check_pow10(k: u64) -> Vec<Violation> {
    let mut out = vec![];
    let p = pow10(k);
    let case = |what: &str| json!({"op": "pow10", "k": k, "what": what});
    // 1 re-scaled to k fraction digits must be exactly (10^k, k)
    match guard(|| BigDecimal::from(1).with_scale(k as i64)) {
        Ok(b) => {
            let d = dec(&b);
            if d.n != p || d.s != k as i128 {
                out.push(v("with_scale (power of ten)", "wrong_value", case("one.with_scale(k)"), format!("1e{} at scale {}", k, k), format!("{} digits, scale {}", ndigits(&d.n), d.s)).attr("k", k));
            }
        }
        Err(e) => out.push(v("with_scale (power of ten)", "panic", case("one.with_scale(k)"), "10^k".into(), e)),
    }
    match guard(|| BigDecimal::from(1).with_prec(k + 1)) {
        Ok(b) => {
            let d = dec(&b);
            if d.n != p || d.s != k as i128 {
                out.push(v("with_prec (power of ten)", "wrong_value", case("one.with_prec(k+1)"), format!("1e{} at scale {}", k, k), format!("{} digits, scale {}", ndigits(&d.n), d.s)).attr("k", k));
            }
        }
        Err(e) => out.push(v("with_prec (power of ten)", "panic", case("one.with_prec(k+1)"), "10^k".into(), e)),
    }
    match guard(|| BigDecimal::new(BigInt::from(3), -(k as i64)).with_scale(0)) {
        Ok(b) => {
            if dec(&b).n != &p * 3 {
                out.push(v("with_scale (power of ten)", "wrong_value", case("3e+k .with_scale(0)"), "3*10^k".into(), "different".into()).attr("k", k));
            }
        }
        Err(e) => out.push(v("with_scale (power of ten)", "panic", case("3e+k .with_scale(0)"), "3*10^k".into(), e)),
    }
    // precision extension / identity on the neighbours of the power of ten (with_prec has to know their digit count)
    if k >= 1 {
        for (name, n, digits) in [("10^k-1", &p - 1, k), ("10^k+1", &p + 1, k + 1), ("-(10^k-1)", BigInt::from(1) - &p, k)] {
            for (what, prec, ext) in [("with_prec(own digits)", digits, 0u64), ("with_prec(own digits + 3)", digits + 3, 3)] {
                let want = Dec { n: &n * pow10(ext), s: 2 + ext as i128 };
                match guard(|| BigDecimal::new(n.clone(), 2).with_prec(prec)) {
                    Ok(b) if dec(&b) == want => {}
                    Ok(b) => {
                        let d = dec(&b);
                        out.push(v("with_prec (next to a power of ten)", "wrong_value", case(&format!("{} {}", name, what)), format!("{} digits, scale {}", digits + ext, want.s), format!("{} digits, scale {}", ndigits(&d.n), d.s)).attr("k", k))
                    }
                    Err(e) => out.push(v("with_prec (next to a power of ten)", "panic", case(&format!("{} {}", name, what)), "the same digits".into(), e)),
                }
            }
        }
    }
    for (name, n, want) in [("10^k", p.clone(), k + 1), ("10^k-1", &p - 1, k.max(1)), ("10^k+1", &p + 1, k + 1), ("-(10^k)", -p.clone(), k + 1)] {
        for scale in [0i64, 3] {
            let got = guard(|| {
                let b = BigDecimal::new(n.clone(), scale);
                (b.digits(), b.to_ref().count_digits())
            });
            match got {
                Ok((a, b)) if a == want && b == want => {}
                Ok((a, b)) => out.push(v("digits", "wrong_value", case(name), want.to_string(), format!("digits()={} count_digits()={}", a, b)).attr("k", k)),
                Err(e) => out.push(v("digits", "panic", case(name), want.to_string(), e)),
            }
        }
    }
    out
}

fn check_extension(x: &Dec, k: u64) -> Vec<Violation> {
    let mut out = vec![];
    let xb = bd(x);
    let want = Dec { n: &x.n * pow10(k), s: x.s + k as i128 };
    let case = |what: &str| json!({"op": "extend", "x": x.show(), "k": k, "what": what});
    let forms: Vec<(&str, Result<BigDecimal, String>)> = vec![
        ("with_scale", guard(|| xb.with_scale((x.s + k as i128) as i64))),
        ("with_scale_round", guard(|| xb.with_scale_round((x.s + k as i128) as i64, bigdecimal::RoundingMode::Up))),
        ("with_prec", guard(|| xb.with_prec(ndigits(&x.n) + k))),
        ("to_owned_with_scale", guard(|| xb.to_ref().to_owned_with_scale((x.s + k as i128) as i64))),
    ];
    for (name, got) in forms {
        if x.n.is_zero() && name == "with_prec" {
            continue;
        }
        match got {
            Ok(r) if dec(&r) == want || (x.n.is_zero() && dec(&r).n.is_zero() && dec(&r).s == want.s) => {}
            Ok(r) => out.push(v(&format!("extend {}", name), "wrong_value", case(name), format!("{} digits at scale {}", ndigits(&want.n), want.s), format!("{} digits at scale {}", ndigits(&dec(&r).n), dec(&r).s)).attr("k", k)),
            Err(e) => out.push(v(&format!("extend {}", name), "panic", case(name), "exact extension".into(), e)),
        }
    }
    out
}

fn v_(what: String, want: u64, obs: String) -> Violation {
    Violation::new("digits", "wrong_value", json!({"op": "pow2", "what": what}), want.to_string(), obs)
}

fn replay(case: &Value) -> Vec<Violation> {
    match case["op"].as_str().unwrap() {
        "accessors" => check_accessors(&jd(&case["x"])),
        "normalized" => check_normalized(&jd(&case["x"])).into_iter().collect(),
        "pow10" => check_pow10(case["k"].as_u64().unwrap()),
        "pow2" => {
            // "2^n+d"
            let w = case["what"].as_str().unwrap();
            let (n, d) = w[2..].split_at(w[2..].find(|c| c == '+' || c == '-').unwrap());
            let v = (BigInt::from(1) << n.parse::<usize>().unwrap()) + d.parse::<i64>().unwrap();
            let want = ndigits(&v);
            let b = BigDecimal::new(v, 7);
            if b.digits() != want || b.to_ref().count_digits() != want {
                vec![v_(w.to_string(), want, format!("digits()={}", b.digits()))]
            } else {
                vec![]
            }
        }
        "extend" => check_extension(&jd(&case["x"]), case["k"].as_u64().unwrap()),
        "normalized_twins" => {
            let (a, b) = (jd(&case["x"]), jd(&case["y"]));
            let (na, nb) = (dec(&bd(&a).normalized()), dec(&bd(&b).normalized()));
            if na != nb {
                vec![v("normalized", "twins_differ", case.clone(), na.show(), nb.show())]
            } else {
                vec![]
            }
        }
        _ => panic!("unknown op"),
    }
}

fn main() {
    let (run, inv) = Run::start("C18");
    if let Invocation::Replay(f) = &inv {
        run.replay(f, replay);
    }
    let tier = run.tier();
    run.rule("S1: every k in 0..=K: 10^k built by the subject (with_scale, with_prec, with_scale down) equals the model's string-built power, digits()/count_digits() of 10^k, 10^k-1, 10^k+1 equal their string lengths; S2: every small decimal x every constructor x every accessor returns the stored pair verbatim; S3: normalized() is the canonical pair (and identical for value-equal twins); S4: scale/precision extension multiplies by the exact power; non-trivial = everything except scale-0 single-digit inputs; cases distinct by construction");
    // (the property's stated range is k <= 5000; the sweep continues beyond it because it is cheap)
    let kmax: u64 = tier.pick(10_000, 30_000);
    run.bound("S1_k_max", kmax);
    run.par("S1 powers of ten 10^k, 10^k-1, 10^k+1", (kmax + 1) as usize, |k| {
        let mut t = Tally::default();
        t.states += 3;
        t.transitions += 17;
        t.nontrivial += 3;
        for viol in check_pow10(k as u64) {
            run.report(viol);
        }
        if k % 1000 == 590 {
            run.sample(|| json!({"op": "pow10", "k": k, "what": "10^k"}));
        }
        t
    });

    // S1b: digit counting at every power of two 2^n-1, 2^n, 2^n+1 (bit-length based estimates change here)
    let nbits: usize = tier.pick(36_000, 100_000);
    run.bound("S1b_powers_of_two", format!("2^n-1, 2^n, 2^n+1 for n <= {}", nbits));
    run.par("S1b digit counts at powers of two", nbits / 50 + 1, |blk| {
        let mut t = Tally::default();
        for n in (blk * 50)..((blk + 1) * 50).min(nbits + 1) {
            let p2 = BigInt::from(1) << n;
            for d in [-1i64, 0, 1] {
                let v = &p2 + d;
                if v.is_zero() {
                    continue;
                }
                t.states += 1;
                t.transitions += 2;
                t.nontrivial += 1;
                let want = ndigits(&v);
                let got = guard(|| {
                    let b = BigDecimal::new(v.clone(), 7);
                    (b.digits(), b.to_ref().count_digits())
                });
                match got {
                    Ok((a, b)) if a == want && b == want => {}
                    Ok((a, b)) => run.report(v_(format!("2^{}{:+}", n, d), want, format!("digits()={} count_digits()={}", a, b))),
                    Err(e) => run.report(v_(format!("2^{}{:+}", n, d), want, e)),
                }
            }
        }
        t
    });

    let nmax: i64 = tier.pick(20_000, 999_999);
    run.bound("S2_unscaled_max", nmax);
    run.bound("S2_scales", "-6..=6, i64::MIN, i64::MAX");
    run.par("S2 constructors x accessors", (nmax + 1) as usize, |i| {
        let mut t = Tally::default();
        for sign in [1i64, -1] {
            if i == 0 && sign < 0 {
                continue;
            }
            let mut scales: Vec<i128> = (-6..=6).collect();
            if i % 97 == 0 {
                scales.extend([i64::MIN as i128, i64::MAX as i128]);
            }
            for s in scales {
                let x = Dec::new(i as i64 * sign, s);
                t.states += 1;
                t.transitions += 17 * 4;
                t.nontrivial += 1;
                for viol in check_accessors(&x) {
                    run.report(viol);
                }
                if s.abs() <= 6 {
                    t.transitions += 1;
                    if let Some(viol) = check_normalized(&x) {
                        run.report(viol);
                    }
                }
            }
        }
        t
    });
    // long operands through the accessors
    let lens: &[usize] = if tier.is_thorough() { &LONG_LENS_THOROUGH } else { &LONG_LENS_QUICK };
    let longs = long_ints(lens, run.seed());
    run.par("S2 long operands x accessors", longs.len(), |i| {
        let mut t = Tally::default();
        for sign in [1, -1] {
            for s in [0i128, 7, -7, 5000, -5000] {
                let x = Dec { n: &longs[i].1 * sign, s };
                t.states += 1;
                t.transitions += 44 * 3 + 1;
                t.nontrivial += 1;
                for viol in check_accessors(&x) {
                    run.report(viol);
                }
                if let Some(viol) = check_normalized(&x) {
                    run.report(viol);
                }
            }
        }
        t
    });

    // S2c structured operands (word limits, word-crossing products, patterns at every length, carry chains,
    // all-ones words) x scales x written-out zeros through the accessors and normalized()
    let st = structured_ints(tier.pick(80, 300), tier.pick(24, 60), run.seed());
    run.bound("S2c_structured_integers", st.len());
    run.par("S2c structured operands x accessors", st.len(), |i| {
        let mut t = Tally::default();
        for x in structured_decimals(&st[i..=i], &[0, 3, -3, 19, 40], &[0, 1, 19, 20]) {
            t.states += 1;
            t.transitions += 44 * 3 + 1;
            t.nontrivial += 1;
            for viol in check_accessors(&x) {
                run.report(viol);
            }
            if let Some(viol) = check_normalized(&x) {
                run.report(viol);
            }
        }
        t
    });

    // S3 normalized: n*10^z, z in 0..=130 and the algorithm-switch lengths; twins must agree exactly
    let mut zs: Vec<u64> = (0..=130).collect();
    zs.extend(if tier.is_thorough() { vec![255, 256, 257, 589, 590, 591, 1000, 2000, 5000] } else { vec![256, 590, 1000] });
    run.bound("S3_trailing_zeros", json!(zs));
    let bases: Vec<i64> = (1..=tier.pick(300, 999)).filter(|n| n % 10 != 0).collect();
    run.par("S3 normalized: trailing-zero families", zs.len(), |zi| {
        let z = zs[zi];
        let mut t = Tally::default();
        let p = pow10(z);
        for &b in bases.iter() {
            if z > 40 && b > 40 {
                break;
            }
            for sign in [1, -1] {
                for s in [0i128, 3, -4] {
                    let base = Dec::new(b * sign, s);
                    let x = Dec { n: &base.n * &p, s: s + z as i128 };
                    t.states += 1;
                    t.transitions += 2;
                    t.nontrivial += 1;
                    if let Some(viol) = check_normalized(&x) {
                        run.report(viol);
                    }
                    // equal decimals have identical normalized parts
                    let (na, nb) = (guard(|| dec(&bd(&x).normalized())), guard(|| dec(&bd(&base).normalized())));
                    if let (Ok(na), Ok(nb)) = (na, nb) {
                        if na != nb {
                            run.report(v("normalized", "twins_differ", json!({"op": "normalized_twins", "x": x.show(), "y": base.show()}), nb.show(), na.show()).attr("trailing_zeros", z));
                        }
                    }
                }
            }
        }
        // zero with any scale normalizes to (0, 0)
        for s in [z as i128, -(z as i128)] {
            t.transitions += 1;
            if let Some(viol) = check_normalized(&Dec::new(0, s)) {
                run.report(viol);
            }
        }
        t
    });

    // S3b normalized on m*2^a*5^b (trailing decimal zeros = min(a, b) when m is coprime to 10)
    let amax: u32 = tier.pick(72, 140);
    let exps: Vec<u32> = (0..=amax).collect();
    run.bound("S3b_two_five_exponents", format!("a, b in 0..={}", amax));
    run.par("S3b normalized: m*2^a*5^b", exps.len(), |ai| {
        let mut t = Tally::default();
        for (a, b, n) in two_five_ints(&[exps[ai]], &exps, &[1, 3, -7]) {
            for s in [0i128, 5, -5] {
                let x = Dec { n: n.clone(), s };
                t.states += 1;
                t.transitions += 1;
                t.nontrivial += 1;
                if let Some(viol) = check_normalized(&x) {
                    run.report(viol.attr("v2", a).attr("v5", b));
                }
            }
        }
        t
    });

    // S4 extension by k digits
    let mut ks: Vec<u64> = if tier.is_thorough() { (0..=5000).collect() } else { (0..=620).chain([1000, 1024, 4096, 5000]).collect() };
    // ... and the rest of the gap alphabet: both sides of 16*590 = 9440 (the power-of-ten helper recurses twice), 10000, 65536
    ks.extend(gaps().into_iter().filter(|g| *g > 5000));
    run.bound("S4_extension", if tier.is_thorough() { json!("every k 0..=5000 plus 9435..9445, 9999, 10000, 65535..65556") } else { json!("every k 0..=620 plus 1000, 1024, 4096, 5000, 9435..9445, 9999, 10000, 65535..65556") });
    let ext_ops: Vec<Dec> = vec![Dec::new(1, 0), Dec::new(-7, 2), Dec::new(0, 1), Dec { n: pow10(19) - 1, s: -3 }, Dec { n: big(&filler_digits(run.seed(), 40, 40)), s: 10 }, Dec::new(12500, 3)];
    run.par("S4 scale/precision extension", ks.len(), |i| {
        let mut t = Tally::default();
        for x in ext_ops.iter() {
            t.states += 1;
            t.transitions += 4;
            t.nontrivial += 1;
            for viol in check_extension(x, ks[i]) {
                run.report(viol);
            }
        }
        t
    });
    // S4b: extension whose product c*10^k sits on a machine-word limit: c = floor(2^e / 10^k) + {-1,0,1,2} and
    // the word-limit coefficients 2^e + d, for every k <= 45 (any u64 / i128 / u128 shortcut for the product)
    let kb: u64 = tier.pick(45, 80);
    run.bound("S4b_extension", format!("0..={}", kb));
    run.par("S4b extension across machine-word limits", (kb + 1) as usize, |k| {
        let k = k as u64;
        let mut t = Tally::default();
        let p = pow10(k);
        let mut cs: Vec<BigInt> = word_limit_ints();
        for e in [31usize, 32, 63, 64, 127, 128] {
            let q = (BigInt::from(1) << e) / &p;
            for d in [-1i64, 0, 1, 2] {
                let c = &q + d;
                if c.is_positive() {
                    cs.push(-c.clone());
                    cs.push(c);
                }
            }
        }
        for c in cs {
            for s in [0i128, 3, -2] {
                t.states += 1;
                t.transitions += 4;
                t.nontrivial += 1;
                for viol in check_extension(&Dec { n: c.clone(), s }, k) {
                    run.report(viol);
                }
            }
        }
        t
    });
    let _ = Sign::Plus;
    run.finish();
}
