//! C07 — rounding to a precision honours the rounding mode at the p-th digit.
use bigdecimal::BigDecimal;
use num_traits::Zero;
use props::alpha::*;
use props::conv::*;
use props::engine::*;
use serde_json::{json, Value};
use spec::*;
use std::num::NonZeroU64;

const ENTRIES: [&str; 7] = ["with_precision_round", "Context::round_decimal", "Context::round_decimal_ref(&BigDecimal)", "Context::round_decimal_ref(BigDecimalRef)", "Context::round_decimal_ref(&BigInt)", "BigDecimalRef::round_with_context", "with_prec"];

fn call(entry: &str, xb: &BigDecimal, p: u64, m: Mode) -> BigDecimal {
    let c = ctx(p, m);
    match entry {
        "with_precision_round" => xb.with_precision_round(NonZeroU64::new(p).unwrap(), rm(m)),
        "Context::round_decimal" => c.round_decimal(xb.clone()),
        "Context::round_decimal_ref(&BigDecimal)" => c.round_decimal_ref(xb),
        "Context::round_decimal_ref(BigDecimalRef)" => c.round_decimal_ref(xb.to_ref()),
        "Context::round_decimal_ref(&BigInt)" => {
            let (n, s) = xb.as_bigint_and_exponent();
            assert_eq!(s, 0);
            c.round_decimal_ref(&n)
        }
        "BigDecimalRef::round_with_context" => xb.to_ref().round_with_context(&c),
        "with_prec" => xb.with_prec(p),
        _ => unreachable!(),
    }
}

fn case_json(entry: &str, x: &Dec, p: u64, m: Mode) -> Value {
    json!({"entry": entry, "x": x.show(), "p": p, "mode": m.name()})
}

fn check(entry: &str, xb: &BigDecimal, x: &Dec, p: u64, m: Mode) -> Option<Violation> {
    let d = ndigits(&x.n);
    let want = round_to_prec(&x.n, x.s, p, m);
    let mk = |class: &str, obs: String| {
        Violation::new(&format!("precision {}", entry), class, case_json(entry, x, p, m), want.show(), obs)
            .attr("entry", entry)
            .attr("mode", m.name())
            .attr("sign", if x.n.sign() == Sign::Minus { "-" } else { "+" })
            .attr("p", p)
            .attr("digits", d)
            .attr("rounds", d > p)
    };
    match guard(|| call(entry, xb, p, m)) {
        Err(e) => Some(mk("panic", e)),
        Ok(r) => {
            let r = dec(&r);
            if !r.eq_val(&want) {
                return Some(mk("wrong_value", r.show()));
            }
            // exact input with at most p digits: padded with zeros to exactly p digits
            if d <= p && !x.n.is_zero() && ndigits(&r.n) != p {
                return Some(mk("not_padded", format!("{} ({} digits)", r.show(), ndigits(&r.n))));
            }
            None
        }
    }
}

fn check_sum(entry: &str, a: &Dec, b: &Dec, xa: &BigDecimal, xb: &BigDecimal, p: u64, m: Mode) -> Option<Violation> {
    let exact = a.add(b);
    let want = round_to_prec(&exact.n, exact.s, p, m);
    let c = ctx(p, m);
    let got = guard(|| match entry {
        "Context::add_refs" => c.add_refs(xa, xb),
        "Context::add_refs(ref,ref)" => c.add_refs(xa.to_ref(), xb.to_ref()),
        _ => {
            let mut dest = BigDecimal::from(12345);
            c.add_refs_into(xa, xb, &mut dest);
            dest
        }
    });
    let case = json!({"entry": entry, "a": a.show(), "b": b.show(), "p": p, "mode": m.name()});
    let mk = |class: &str, obs: String| Violation::new(&format!("precision {}", entry), class, case.clone(), want.show(), obs).attr("entry", entry).attr("mode", m.name()).attr("p", p);
    match got {
        Err(e) => Some(mk("panic", e)),
        Ok(r) => {
            let r = dec(&r);
            if !r.eq_val(&want) {
                Some(mk("wrong_value", r.show()))
            } else {
                None
            }
        }
    }
}

fn replay(case: &Value) -> Vec<Violation> {
    let entry = case["entry"].as_str().unwrap().to_string();
    let p = case["p"].as_u64().unwrap();
    let m = Mode::from_name(case["mode"].as_str().unwrap()).unwrap();
    if entry.contains("add_refs") {
        let (a, b) = (jd(&case["a"]), jd(&case["b"]));
        let e = ["Context::add_refs", "Context::add_refs(ref,ref)", "Context::add_refs_into"].into_iter().find(|e| *e == entry).unwrap();
        return check_sum(e, &a, &b, &bd(&a), &bd(&b), p, m).into_iter().collect();
    }
    let x = jd(&case["x"]);
    let e = ENTRIES.into_iter().find(|e| *e == entry).unwrap();
    if let Some(a) = case.get("after") {
        if let Some(prev) = a.get("x") {
            // history over another operand: measure / round it first
            let pb = bd(&jd(prev));
            let _ = guard(|| (pb.digits(), call(e, &pb, p, m)));
            return check(e, &bd(&x), &x, p, m)
                .map(|mut v| {
                    if let Some(o) = v.case.as_object_mut() {
                        o.insert("after".into(), a.clone());
                    }
                    v
                })
                .into_iter()
                .collect();
        }
        let first = (a["p"].as_u64().unwrap(), Mode::from_name(a["mode"].as_str().unwrap()).unwrap());
        return check_after(e, &bd(&x), &x, first, (p, m)).into_iter().collect();
    }
    check(e, &bd(&x), &x, p, m).into_iter().collect()
}

/// one call preceded by another call of the same entry point on the same operand (same thread): the
/// functions are pure, so the second result must be what the model says whatever came first
fn check_after(entry: &str, xb: &BigDecimal, x: &Dec, first: (u64, Mode), second: (u64, Mode)) -> Option<Violation> {
    let _ = guard(|| call(entry, xb, first.0, first.1));
    check(entry, xb, x, second.0, second.1).map(|mut v| {
        if let Some(o) = v.case.as_object_mut() {
            o.insert("after".into(), json!({"p": first.0, "mode": first.1.name()}));
        }
        v.attr("history", true)
    })
}

fn sweep(run: &Run, x: &Dec, ps: &[u64], t: &mut Tally) {
    let xb = bd(x);
    let d = ndigits(&x.n);
    t.states += 1;
    for &p in ps {
        for e in ENTRIES {
            if e == "Context::round_decimal_ref(&BigInt)" && x.s != 0 {
                continue;
            }
            if e == "with_prec" {
                t.transitions += 1;
                if d > p {
                    t.nontrivial += 1;
                }
                if let Some(v) = check(e, &xb, x, p, Mode::HalfUp) {
                    run.report(v);
                }
                continue;
            }
            for m in MODES {
                t.transitions += 1;
                if d > p {
                    t.nontrivial += 1;
                }
                if let Some(v) = check(e, &xb, x, p, m) {
                    run.report(v);
                }
            }
        }
    }
}

fn main() {
    let (run, inv) = Run::start("C07");
    if let Invocation::Replay(f) = &inv {
        run.replay(f, replay);
    }
    let tier = run.tier();
    run.rule("every decimal of each sub-domain x every p in 1..digits+5 x 7 modes x 6 entry points (+ with_prec as HalfUp); two-operand context sums over all operand pairs x p x modes x 3 spellings; non-trivial = the input (or exact sum) has more than p digits so a rounding decision is made; cases distinct by construction");
    run.assume("when rounding happens only the value is compared; when the input has at most p digits the result must also have exactly p digits");
    let nmax: i64 = tier.pick(9_999, 99_999);
    let scales: Vec<i128> = tier.pick(vec![-2, 0, 3], vec![-2, 0, 1, 3, 7]);
    run.bound("S1_unscaled_max", nmax);
    run.bound("S1_scales", json!(scales.iter().map(|s| *s as i64).collect::<Vec<_>>()));
    run.par("S1 small-scope product", (nmax + 1) as usize, |i| {
        let mut t = Tally::default();
        for sign in [1i64, -1] {
            if i == 0 && sign < 0 {
                continue;
            }
            for &s in scales.iter() {
                let x = Dec::new(i as i64 * sign, s);
                let d = ndigits(&x.n);
                let ps: Vec<u64> = (1..=d + 5).collect();
                sweep(&run, &x, &ps, &mut t);
            }
        }
        if i % 1013 == 129 {
            run.sample(|| case_json("with_precision_round", &Dec::new(-(i as i64), 3), 2, Mode::HalfEven));
        }
        t
    });

    // S2: sums whose exact value needs more than p digits
    let smax: i64 = tier.pick(60, 150);
    let ops = small_decimals(smax, -2, 2);
    let xs: Vec<BigDecimal> = ops.iter().map(bd).collect();
    run.bound("S2_sum_operands", format!("|n| <= {}, scales -2..=2, p in 1..=8", smax));
    run.par("S2 context sums, small scope", ops.len(), |i| {
        let mut t = Tally::default();
        t.states += 1;
        for j in 0..ops.len() {
            let exact = ops[i].add(&ops[j]);
            let d = ndigits(&exact.n);
            for p in 1..=8u64 {
                for m in MODES {
                    // the three spellings share one implementation; rotate them over the grid, all three on the diagonal band
                    let es: &[&str] = if (i + j) % 16 == 0 { &["Context::add_refs", "Context::add_refs(ref,ref)", "Context::add_refs_into"] } else { &["Context::add_refs", "Context::add_refs_into"] };
                    for e in es {
                        t.transitions += 1;
                        if d > p {
                            t.nontrivial += 1;
                        }
                        if let Some(v) = check_sum(e, &ops[i], &ops[j], &xs[i], &xs[j], p, m) {
                            run.report(v);
                        }
                    }
                }
            }
        }
        t
    });

    // S3: sums of an operand that is exactly representable / an exact tie at digit p with a tiny operand
    // far below the rounding position (every gap 1..60, both signs)
    let bigs: Vec<Dec> = vec![Dec::new(3, 0), Dec::new(25, 1), Dec::new(-25, 1), Dec::new(1999, 2), Dec::new(5, 0), Dec::new(15, 0), Dec::new(-3, 0), Dec::new(1, -3), Dec::new(99995, 3), Dec::new(-45, 0)];
    run.bound("S3_gap", "1..=60");
    run.par("S3 context sums with a far-away tiny operand", 60, |gi| {
        let g = gi as i128 + 1;
        let mut t = Tally::default();
        for a in bigs.iter() {
            for tiny in [1i64, -1, 5, -5, 49, -51] {
                let b = Dec::new(tiny, a.s + g);
                let (xa, xb) = (bd(a), bd(&b));
                t.states += 1;
                for p in 1..=8u64 {
                    for m in MODES {
                        for (e, swap) in [("Context::add_refs", false), ("Context::add_refs_into", true)] {
                            t.transitions += 1;
                            t.nontrivial += 1;
                            let v = if swap { check_sum(e, &b, a, &xb, &xa, p, m) } else { check_sum(e, a, &b, &xa, &xb, p, m) };
                            if let Some(v) = v {
                                run.report(v);
                            }
                        }
                    }
                }
            }
        }
        run.sample(|| json!({"entry": "Context::add_refs", "a": "3e0", "b": Dec::new(-1, g).show(), "p": 5, "mode": "Down"}));
        t
    });

    // S12: context sums whose alignment multiplies a machine word by 10^g right at the word's limit: the coarser
    // operand carries floor(2^B / 10^g) + {-1, 0, 1} (B = 32, 64, 128) at 32-bit word positions 0..2, the finer one
    // all-ones words / 4*10^(g-1) / 10^g - 1, for EVERY gap g = 1..=40; same and opposite signs, both orders
    run.bound("S12_critical_word_gaps", "1..=40");
    run.par("S12 context sums at the word limits of a fused multiply-add", 40, |gi| {
        let g = gi as u32 + 1;
        let mut t = Tally::default();
        let coarse = critical_word_ints(g, &[0, 1, 2]);
        let fine: Vec<num_bigint::BigInt> = vec![
            num_bigint::BigInt::from(u32::MAX),
            num_bigint::BigInt::from(u64::MAX),
            (num_bigint::BigInt::from(1) << 96) - 1,
            pow10(g as u64 - 1) * 4,
            pow10(g as u64) - 1,
            pow10(g as u64 - 1) * 5,
        ];
        for ca in coarse.iter() {
            for fb in fine.iter() {
                for (sa, sb) in [(1i64, 1i64), (-1, -1), (1, -1)] {
                    let a = Dec { n: ca * sa, s: -3 };
                    let b = Dec { n: fb * sb, s: g as i128 - 3 };
                    let (xa, xb) = (bd(&a), bd(&b));
                    t.states += 1;
                    for p in [1u64, 5, 19, 20, 40] {
                        for m in MODES {
                            for (e, swap) in [("Context::add_refs", false), ("Context::add_refs(ref,ref)", true), ("Context::add_refs_into", true)] {
                                t.transitions += 1;
                                t.nontrivial += 1;
                                let v = if swap { check_sum(e, &b, &a, &xb, &xa, p, m) } else { check_sum(e, &a, &b, &xa, &xb, p, m) };
                                if let Some(v) = v {
                                    run.report(v);
                                }
                            }
                        }
                    }
                }
            }
        }
        t
    });

    // S3b: cancellation: (c + tiny) + (-c): the exact sum is the tiny part, which must be rounded to p digits
    run.par("S3b context sums with cancelling leading digits", 100, |gi| {
        let g = gi as i128 + 1;
        let mut t = Tally::default();
        for c in bigs.iter() {
            for tiny in [1i64, -1, 4567, -4567, 95, 149995] {
                let tv = Dec::new(tiny, c.s + g + 3);
                let a = c.add(&tv);
                let b = c.neg();
                let (xa, xb) = (bd(&a), bd(&b));
                t.states += 1;
                for p in [1u64, 2, 3, 5, 8, 25] {
                    for m in MODES {
                        for (e, swap) in [("Context::add_refs", false), ("Context::add_refs_into", true)] {
                            t.transitions += 1;
                            t.nontrivial += 1;
                            let v = if swap { check_sum(e, &b, &a, &xb, &xa, p, m) } else { check_sum(e, &a, &b, &xa, &xb, p, m) };
                            if let Some(v) = v {
                                run.report(v);
                            }
                        }
                    }
                }
            }
        }
        t
    });

    // S4: long operands x p in {1, 2, l-1, l, l+1, l+5} and around 9-runs / ties
    let lens: &[usize] = if tier.is_thorough() { &LONG_LENS_THOROUGH } else { &LONG_LENS_QUICK };
    let mut longs: Vec<Dec> = vec![];
    for (_, n) in long_ints(lens, run.seed()) {
        for s in [0i128, -7, 33] {
            longs.push(Dec { n: n.clone(), s });
            longs.push(Dec { n: -n.clone(), s });
        }
    }
    // near-ties deep in the tail: d 5 0...0 x and d 0 0...0 x
    for l in [6usize, 20, 40, 100] {
        for head in ["1", "2", "19", "99", "1234"] {
            for mid in ["5", "0", "4", "9"] {
                for last in ["0", "1"] {
                    let s = format!("{}{}{}{}", head, mid, "0".repeat(l), last);
                    longs.push(Dec { n: big(&s), s: 0 });
                    longs.push(Dec { n: -big(&s), s: 5 });
                }
            }
        }
    }
    run.bound("S4_lengths", json!(lens));
    run.par("S4 long operands", longs.len(), |i| {
        let mut t = Tally::default();
        let x = &longs[i];
        let l = ndigits(&x.n);
        let mut ps: Vec<u64> = vec![1, 2, 3, 4, 5, l.saturating_sub(1).max(1), l, l + 1, l + 5];
        ps.sort();
        ps.dedup();
        sweep(&run, x, &ps, &mut t);
        t
    });
    // S5: sparse tails behind the p-th digit
    let tail_lens: Vec<usize> = if tier.is_thorough() { (0..=72).chain([100, 127, 128, 129, 255, 256, 257, 1023, 1024, 1025, 1100, 1500, 2100, 4100]).collect() } else { (0..=40).chain([63, 64, 65, 257, 1100, 1500]).collect() };
    let tails = sparse_tails(&tail_lens);
    run.bound("S5_tail_lengths", json!(tail_lens));
    run.par("S5 sparse tails (one non-zero digit at every position)", tails.len(), |i| {
        let mut t = Tally::default();
        for head in ["1", "2", "19", "99", "1234"] {
            for d0 in ['0', '5', '4', '9'] {
                let digits = format!("{}{}{}", head, d0, tails[i]);
                for sign in [1, -1] {
                    for s in [0i128, 7] {
                        let x = Dec { n: big(&digits) * sign, s };
                        let p = head.len() as u64;
                        let mut ps = vec![p, p + 1];
                        if p > 1 {
                            ps.push(p - 1);
                        }
                        sweep(&run, &x, &ps, &mut t);
                    }
                }
            }
        }
        t
    });
    // S8: the five decision shapes (10..01, 49..9, 50..0, 50..01, 9..9) of the discarded digits at EVERY discarded
    // length 1..=L: any estimate of the discarded length is exercised at every value
    let lmax8: usize = tier.pick(2600, 10000);
    run.bound("S8_discarded_lengths", format!("1..={}", lmax8));
    // ... and a ladder of far longer dropped parts (sizes at which a digit-count ESTIMATE first goes wrong are set
    // by the estimate's error, not by any literal in the code)
    let ladder: Vec<usize> = tier.pick(vec![3000, 5000, 7100, 8000, 10000, 12000, 16500, 20000], vec![12000, 16500, 20000, 25000, 33000, 50000, 70000, 100000]);
    run.bound("lmax8_ladder", json!(ladder));
    run.par("S8 decision shapes at every discarded length", lmax8 + ladder.len(), |li| {
        let l = if li < lmax8 { li + 1 } else { ladder[li - lmax8] };
        let mut t = Tally::default();
        for tail in decision_tails(l) {
            for head in ["7", "86"] {
                let x = Dec { n: big(&format!("{}{}", head, tail)), s: 3 };
                sweep(&run, &x, &[head.len() as u64], &mut t);
                if l % 16 == 1 {
                    sweep(&run, &Dec { n: -x.n.clone(), s: -2 }, &[head.len() as u64], &mut t);
                }
            }
        }
        t
    });
    // S10: call histories of length two: every ordered pair of (precision, mode) settings from a small set on each
    // operand through each entry point, and the descending chain of precisions under each mode
    let hx: Vec<Dec> = vec![Dec::new(12345678, 3), Dec::new(-99995, 2), Dec::new(25, 1), Dec::new(1500001, 0), Dec { n: big(&filler_digits(run.seed(), 40, 40)), s: 17 }, Dec { n: pow10(30) - 1, s: 4 }, Dec::new(-14999, 0), Dec::new(5, 0)];
    let hp: Vec<u64> = tier.pick(vec![1, 2, 3, 5], vec![1, 2, 3, 4, 5, 8, 19, 20]);
    run.bound("S10_history_operands", hx.len());
    run.bound("S10_history_precisions", json!(hp));
    run.par("S10 call histories of length two", hx.len() * ENTRIES.len(), |ie| {
        let (i, e) = (ie / ENTRIES.len(), ENTRIES[ie % ENTRIES.len()]);
        let mut t = Tally::default();
        let x = &hx[i];
        if e == "Context::round_decimal_ref(&BigInt)" && x.s != 0 {
            return t;
        }
        let xb = bd(x);
        t.states += 1;
        let modes: Vec<Mode> = if e == "with_prec" { vec![Mode::HalfUp] } else { MODES.to_vec() };
        for &p1 in hp.iter() {
            for &m1 in modes.iter() {
                for &p2 in hp.iter() {
                    for &m2 in modes.iter() {
                        t.transitions += 2;
                        t.nontrivial += 1;
                        if let Some(v) = check_after(e, &xb, x, (p1, m1), (p2, m2)) {
                            run.report(v);
                        }
                    }
                }
            }
        }
        for &m in modes.iter() {
            for p in (1..ndigits(&x.n) + 2).rev() {
                t.transitions += 2;
                if let Some(v) = check_after(e, &xb, x, (p + 1, m), (p, m)) {
                    run.report(v);
                }
            }
        }
        t
    });
    // S11: call histories of length two over pairs of OPERANDS chosen against weak cache keys (two single-bit changes
    // in adjacent words at every relative rotation; a change in a middle word only; neighbours across a power of ten):
    // digits() / rounding of A, then rounding of B through every entry point
    let wk = weak_key_pairs();
    run.bound("S11_weak_key_pairs", wk.len());
    run.par("S11 operand-pair histories over weak-key pairs", (wk.len() + 15) / 16, |blk| {
        let mut t = Tally::default();
        for (a, b) in wk[blk * 16..((blk + 1) * 16).min(wk.len())].iter() {
            let (xa, xb) = (Dec { n: a.clone(), s: 0 }, Dec { n: b.clone(), s: 0 });
            let (pa, pb) = (bd(&xa), bd(&xb));
            let d = ndigits(b);
            t.states += 1;
            for e in ENTRIES {
                let modes: Vec<Mode> = if e == "with_prec" { vec![Mode::HalfUp] } else { vec![Mode::HalfUp, Mode::HalfEven, Mode::Down] };
                for p in [1u64, d / 2, d - 1] {
                    for &m in modes.iter() {
                        t.transitions += 2;
                        t.nontrivial += 1;
                        let _ = guard(|| (pa.digits(), call(e, &pa, p, m)));
                        if let Some(mut v) = check(e, &pb, &xb, p, m) {
                            if let Some(o) = v.case.as_object_mut() {
                                o.insert("after".into(), json!({"x": xa.show()}));
                            }
                            run.report(v.attr("history", true));
                        }
                    }
                }
            }
        }
        t
    });
    // S6: coefficients on both sides of every machine-word limit x every p
    let wl = word_limit_ints();
    run.bound("S6_word_limit_coefficients", wl.len());
    run.par("S6 word-limit coefficients", wl.len(), |i| {
        let mut t = Tally::default();
        for s in [0i128, 5, -3] {
            let x = Dec { n: wl[i].clone(), s };
            let d = ndigits(&x.n);
            let ps: Vec<u64> = (1..=d + 2).collect();
            sweep(&run, &x, &ps, &mut t);
        }
        t
    });
    // S9: structured coefficients (products crossing word limits, digit patterns at every length, carry chains,
    // all-ones words) with k written-out trailing zeros x every precision inside the digits
    let st = structured_ints(tier.pick(40, 120), tier.pick(24, 60), run.seed());
    run.bound("S9_structured_integers", st.len());
    run.par("S9 structured coefficients with written-out zeros", st.len(), |i| {
        let mut t = Tally::default();
        for x in structured_decimals(&st[i..=i], &[2], &[0, 9, 20]) {
            if x.n.sign() == num_bigint::Sign::Minus && i % 4 != 0 {
                continue;
            }
            let d = ndigits(&x.n);
            let ps: Vec<u64> = (1..=d.min(48)).collect();
            sweep(&run, &x, &ps, &mut t);
        }
        t
    });
    // S7: carry chains of every length behind every prefix length
    let cc = carry_chains(tier.pick(20, 40), tier.pick(24, 70));
    run.bound("S7_carry_chains", cc.len());
    run.par("S7 carry chains", cc.len(), |i| {
        let mut t = Tally::default();
        let l = cc[i].len() as u64;
        for sign in [1, -1] {
            let x = Dec { n: big(&cc[i]) * sign, s: 4 };
            // round just before the last one or two digits
            let mut ps: Vec<u64> = vec![];
            if l > 1 {
                ps.push(l - 1);
            }
            if l > 2 {
                ps.push(l - 2);
            }
            if ps.is_empty() {
                continue;
            }
            sweep(&run, &x, &ps, &mut t);
        }
        t
    });
    let _ = num_bigint::BigInt::zero();
    run.finish();
}
