//! C13 — exp(x) is positive and accurate to its last digit for every argument.
use bigdecimal::BigDecimal;
use num_bigint::BigInt;
use num_traits::{Signed, Zero};
use props::alpha::*;
use props::conv::*;
use props::engine::*;
use serde_json::{json, Value};
use spec::exp::exp_bounds;
use spec::*;
use std::cmp::Ordering;
use std::sync::Mutex;

fn precision() -> u64 {
    option_env!("RUST_BIGDECIMAL_DEFAULT_PRECISION").unwrap_or("100").parse().unwrap()
}

fn lead_exp(d: &Dec) -> i128 {
    ndigits(&d.n) as i128 - 1 - d.s
}

/// returns the observed result (for the monotonicity pass) and any violation
fn check(x: &Dec) -> (Option<Dec>, Option<Violation>) {
    let p = precision();
    let xb = bd(x);
    let case = json!({"x": x.show()});
    // magnitude of x as an integer, for known-finding attributes
    let xi: i64 = {
        let scaled = if x.s >= 0 { &x.n / pow10(x.s as u64) } else { &x.n * pow10((-x.s) as u64) };
        scaled.to_string().parse().unwrap_or(if x.n.is_negative() { i64::MIN } else { i64::MAX })
    };
    let mk = |class: &str, exp: String, obs: String| Violation::new("BigDecimal::exp", class, case.clone(), exp, obs).attr("x_int", xi).attr("negative", x.n.is_negative()).attr("digits", ndigits(&x.n));
    let r = match guard(|| xb.exp()) {
        Err(e) => return (None, Some(mk("panic", "a value".into(), e))),
        Ok(r) => dec(&r),
    };
    if x.n.is_zero() {
        return if r.eq_val(&Dec::new(1, 0)) { (Some(r), None) } else { (Some(r.clone()), Some(mk("wrong_value", "exactly 1".into(), r.show()))) };
    }
    if !r.n.is_positive() {
        return (Some(r.clone()), Some(mk("not_positive", "a strictly positive value".into(), r.show())));
    }
    let enc = exp_bounds(&x.n, x.s, p);
    let lo = Dec { n: enc.lo.clone(), s: enc.f as i128 };
    let hi = Dec { n: enc.hi.clone(), s: enc.f as i128 };
    let e = lead_exp(&lo).max(lead_exp(&hi)).max(lead_exp(&r));
    let unit = Dec { n: BigInt::from(1), s: -(e - p as i128 + 1) };
    // the enclosure must be much narrower than a unit, otherwise the oracle is useless (machinery error)
    let width = hi.sub(&lo);
    let w1000 = Dec { n: &width.n * 1000, s: width.s };
    assert!(cmp_val(&w1000.n, w1000.s, &unit.n, unit.s) == Ordering::Less, "exp enclosure too wide");
    let lo_u = lo.sub(&unit);
    let hi_u = hi.add(&unit);
    let ok = cmp_val(&r.n, r.s, &lo_u.n, lo_u.s) != Ordering::Less && cmp_val(&r.n, r.s, &hi_u.n, hi_u.s) != Ordering::Greater;
    if !ok {
        // number of leading digits that agree, for the report
        let mid = Dec { n: (&enc.lo + &enc.hi) / 2, s: enc.f as i128 };
        let diff = r.sub(&mid);
        let good = if diff.n.is_zero() { 999 } else { lead_exp(&mid) - lead_exp(&Dec { n: diff.n.abs(), s: diff.s }) };
        let first = |d: &Dec| {
            let s = d.n.to_string();
            format!("{}…e{}", &s[..s.len().min(30)], lead_exp(d))
        };
        return (Some(r.clone()), Some(mk("inaccurate", format!("e^x = {} within 1 unit of digit {}", first(&mid), p), format!("{} (about {} correct digits)", first(&r), good)).attr("correct_digits", good as i64)));
    }
    (Some(r), None)
}

fn replay(case: &Value) -> Vec<Violation> {
    if case.get("y").is_some() {
        // monotonicity pair
        let (x, y) = (jd(&case["x"]), jd(&case["y"]));
        let (rx, ry) = (dec(&bd(&x).exp()), dec(&bd(&y).exp()));
        return mono(&x, &y, &rx, &ry).into_iter().collect();
    }
    if let Some(a) = case.get("after") {
        // a recorded history: the earlier call first
        let _ = guard(|| bd(&jd(a)).exp());
    }
    check(&jd(&case["x"]))
        .1
        .map(|mut v| {
            if let (Some(a), Some(o)) = (case.get("after"), v.case.as_object_mut()) {
                o.insert("after".into(), a.clone());
            }
            v
        })
        .into_iter()
        .collect()
}

fn mono(x: &Dec, y: &Dec, rx: &Dec, ry: &Dec) -> Option<Violation> {
    // x < y must not yield exp(x) > exp(y) + 2 units in the last place (of exp(y))
    let p = precision();
    let e = lead_exp(ry);
    let two_units = Dec { n: BigInt::from(2), s: -(e - p as i128 + 1) };
    let bound = ry.add(&two_units);
    if cmp_val(&rx.n, rx.s, &bound.n, bound.s) == Ordering::Greater {
        return Some(Violation::new("BigDecimal::exp", "not_monotonic", json!({"x": x.show(), "y": y.show()}), format!("exp(x) <= exp(y) + 2 units = {}", bound.show()), rx.show()));
    }
    None
}

fn main() {
    let (run, inv) = Run::start("C13");
    if let Invocation::Replay(f) = &inv {
        run.replay(f, replay);
    }
    let tier = run.tier();
    spec::exp::self_check();
    let bound: i64 = tier.pick(120, 1000);
    run.bound("max_abs_x", bound);
    run.bound("quick_tier_extra_large_arguments", "+-{150,250,400,471,472,480,500,700,999,1000}, 999.99, -777.7");
    run.rule("every argument of the grid (all integers in [-B,B]; mantissa x scale grid, both signs, |x| <= B; k*ln10 +- 1e-30; zeros with scales; value-equal spellings with k written-out trailing zeros) through exp(), compared with an outward-rounded interval enclosure of e^x (width < 1/1000 unit, asserted): positive, within one unit of the P-th significant digit; consecutive arguments in sorted order checked for monotonicity up to 2 units; non-trivial = non-zero argument (a series must be summed); arguments distinct by construction (deduplicated)");
    run.assume("the enclosure model is validated at start-up against 110 published digits of e and e*e^-1 = 1");

    let mut args: Vec<Dec> = vec![];
    for i in -bound..=bound {
        args.push(Dec::new(i, 0));
    }
    // a handful of large-magnitude arguments also in the quick tier (series needing thousands of terms)
    if !tier.is_thorough() {
        for i in [150i64, 250, 400, 471, 472, 480, 500, 700, 999, 1000] {
            args.push(Dec::new(i, 0));
            args.push(Dec::new(-i, 0));
        }
        args.push(Dec::new(99999, 2));
        args.push(Dec::new(-7777, 1));
    }
    let mut mants: Vec<BigInt> = [1i64, 2, 5, 9, 15, 25, 69315, 230259, 314159, 99999].iter().map(|m| BigInt::from(*m)).collect();
    mants.push(big(&filler_digits(run.seed(), 40, 40)));
    if tier.is_thorough() {
        mants.push(big(&filler_digits(run.seed(), 100, 100)));
        mants.extend([BigInt::from(3), BigInt::from(7), BigInt::from(123456789)]);
    }
    for m in &mants {
        for s in (0..=60i128).chain(if ndigits(m) <= 2 { 61..=135i128 } else { 61..=60i128 }) {
            for sign in [1, -1] {
                let x = Dec { n: m * sign, s };
                // |x| <= bound ?
                if cmp_val(&x.n.abs(), x.s, &BigInt::from(bound), 0) != Ordering::Greater {
                    args.push(x);
                }
            }
        }
    }
    // negative scales (arguments stored as n * 10^k)
    for (n, s) in [(1i64, -1i128), (12, -1), (-2, -1), (1, -2), (-1, -2), (5, -1), (-12, -1), (10, -1)] {
        if (n.abs() as i128) * 10i128.pow((-s) as u32) <= bound as i128 {
            args.push(Dec::new(n, s));
        }
    }
    // k * ln(10) rounded to 30 fraction digits, +- 1e-30: e^x next to a power of ten
    let ln10 = big("2302585092994045684017991454684364207601");
    let kmax: i64 = (bound as f64 / 2.302585093) as i64;
    for k in -kmax..=kmax {
        if k == 0 {
            continue;
        }
        let v = round_div(&(&ln10 * k), &pow10(9), Mode::HalfEven); // 30 fraction digits
        for d in [-1i64, 0, 1] {
            args.push(Dec { n: &v + d, s: 30 });
        }
    }
    // value-equal spellings: the working precision of the series is derived from the STORED digit count, so
    // the same value written with k trailing zeros exercises a different working precision (and any budget
    // computed from digits()); every integer of the inner range and the small mantissa grid, k on both sides
    // of the guard-digit counts of the series (5, 12, 17) and far beyond
    let pad_ks: Vec<u64> = tier.pick(vec![1, 2, 5, 6, 11, 12, 13, 17, 20, 40, 100], vec![1, 2, 3, 4, 5, 6, 8, 11, 12, 13, 16, 17, 18, 20, 30, 40, 60, 100, 117, 200]);
    let inner: i64 = tier.pick(120, 300).min(bound);
    run.bound("padded_spellings_k", json!(pad_ks));
    run.bound("padded_spellings_integer_range", inner);
    for &k in &pad_ks {
        let pk = pow10(k);
        for i in (-inner..=inner).chain([-bound, -100, 100, bound]) {
            if i != 0 {
                args.push(Dec { n: BigInt::from(i) * &pk, s: k as i128 });
            }
        }
        for m in [15i64, 25, 69315, 314159, -15, -25, -69315, -314159] {
            for s in [1i128, 3, 4, 6] {
                let x = Dec { n: BigInt::from(m) * &pk, s: s + k as i128 };
                if cmp_val(&x.n.abs(), x.s, &BigInt::from(bound), 0) != Ordering::Greater {
                    args.push(x);
                }
            }
        }
    }
    // arguments with more fraction digits than the result has significant digits (99..200 places): nothing
    // beyond the precision of the RESULT may be dropped from the ARGUMENT, because the relative error of e^x is
    // the absolute error of x; integer parts -12..12, fraction patterns nines / filler / 0..01 / 50..01
    let frac_lens: Vec<usize> = tier.pick(vec![99, 100, 101, 102, 110, 150], vec![98, 99, 100, 101, 102, 103, 105, 110, 117, 118, 130, 150, 200, 300]);
    run.bound("long_fraction_lengths", json!(frac_lens));
    for &l in &frac_lens {
        let fr: Vec<String> = vec!["9".repeat(l), filler_digits(run.seed(), 1000 + l as u64, l), format!("{}1", "0".repeat(l - 1)), format!("5{}1", "0".repeat(l - 2))];
        for ip in -12i64..=12 {
            for f in fr.iter() {
                let n = BigInt::from(ip.abs()) * pow10(l as u64) + big(f);
                args.push(Dec { n: if ip < 0 { -n } else { n }, s: l as i128 });
            }
        }
    }
    // EVERY argument length: a filler digit string of l digits for l = 1..=lmax with the point after the first / the
    // second digit (x = 2.5.., 31.4..) and before all of them (0.7..), both signs: any estimate taken from the stored
    // coefficient (its bit length, its f64 image, its word count) changes regime at lengths nobody wrote down
    let lmax: usize = tier.pick(420, 1300);
    run.bound("length_ladder", format!("every digit length 1..={} x (d.ddd, dd.ddd, 0.ddd) x both signs", lmax));
    for l in 1..=lmax {
        let digits = format!("2{}", &filler_digits(run.seed(), 7000, lmax)[..l - 1]);
        let n = big(&digits);
        let step = if l <= 130 || (290..=330).contains(&l) || l % 4 == 0 { 1 } else { 0 };
        for (shift, every) in [(1i128, true), (2, step == 1), (0, step == 1)] {
            if !every || l as i128 - shift < 0 {
                continue;
            }
            let x = Dec { n: n.clone(), s: l as i128 - shift };
            args.push(x.neg());
            args.push(x);
        }
    }
    for s in [0i128, 7, -7] {
        args.push(Dec::new(0, s));
    }
    // sort by value, deduplicate by representation
    args.sort_by(|a, b| cmp_val(&a.n, a.s, &b.n, b.s).then(a.s.cmp(&b.s)));
    args.dedup();
    run.bound("arguments", args.len());

    let results: Mutex<Vec<Option<Dec>>> = Mutex::new(vec![None; args.len()]);
    run.par_opts("exp grid", args.len(), 60, &|i| json!({"x": args[i].show()}), |i| {
        let mut t = Tally::default();
        t.states += 1;
        t.transitions += 1;
        if !args[i].n.is_zero() {
            t.nontrivial += 1;
        }
        let (r, v) = check(&args[i]);
        if let Some(r) = &r {
            t.fold(&r.show());
        }
        results.lock().unwrap()[i] = r;
        if let Some(v) = v {
            run.report(v);
        }
        if i % 400 == 7 {
            run.sample(|| json!({"x": args[i].show()}));
        }
        t
    });
    // call histories of length two: exp(y) straight after exp(x) on the same thread, every ordered pair of a small
    // argument set (including value-equal spellings and sign pairs); exp is pure, so the second result is judged
    // by the model whatever came first
    let hargs: Vec<Dec> = vec![Dec::new(1, 0), Dec::new(10, 1), Dec::new(-1, 0), Dec::new(2, 0), Dec::new(5, 1), Dec::new(-5, 1), Dec::new(30, 0), Dec::new(-30, 0), Dec { n: BigInt::from(-30) * pow10(17), s: 17 }, Dec::new(1, 20), Dec::new(230258509299i64, 11), Dec::new(7, -1)];
    run.bound("history_arguments", hargs.len());
    run.par("call histories of length two", hargs.len(), |i| {
        let mut t = Tally::default();
        let first = bd(&hargs[i]);
        for y in hargs.iter() {
            t.states += 1;
            t.transitions += 2;
            t.nontrivial += 1;
            let _ = guard(|| first.exp());
            if let (_, Some(mut v)) = check(y) {
                if let Some(o) = v.case.as_object_mut() {
                    o.insert("after".into(), json!(hargs[i].show()));
                }
                run.report(v.attr("history", true));
            }
        }
        t
    });
    run.seq("monotonicity of consecutive arguments", || {
        let mut t = Tally::default();
        let rs = results.lock().unwrap();
        for i in 1..args.len() {
            if let (Some(rx), Some(ry)) = (&rs[i - 1], &rs[i]) {
                if !rx.n.is_positive() || !ry.n.is_positive() {
                    continue;
                }
                let c = cmp_val(&args[i - 1].n, args[i - 1].s, &args[i].n, args[i].s);
                if c == Ordering::Greater {
                    continue;
                }
                t.transitions += 1;
                if let Some(v) = mono(&args[i - 1], &args[i], rx, ry) {
                    run.report(v);
                }
                // value-equal spellings: x <= y and y <= x
                if c == Ordering::Equal {
                    t.transitions += 1;
                    if let Some(v) = mono(&args[i], &args[i - 1], ry, rx) {
                        run.report(v);
                    }
                }
            }
        }
        t.states += 1;
        t
    });
    let _ = BigInt::zero();
    let _ = BigDecimal::from(0);
    // ... and against the subject built under a non-default compile-time configuration (mc/variants/cfg_alt/build.env)
    run.variant("cfg_alt");
    run.finish();
}
