#![allow(irrefutable_let_patterns)]
//! C15 — integer conversions truncate toward zero and report overflow as None.
use bigdecimal::num_bigint::ToBigInt;
use bigdecimal::{BigDecimal, FromPrimitive, ToPrimitive};
use num_bigint::BigInt;
use num_traits::{Signed, Zero};
use props::alpha::*;
use props::conv::*;
use props::engine::*;
use serde_json::{json, Value};
use spec::*;

const CONVS: [&str; 10] = ["to_i64", "to_u64", "to_i128", "to_u128", "to_bigint", "ref to_i64", "ref to_u64", "ref to_i128", "ref to_u128", "is_integer"];

/// truncation toward zero of the exact value
fn trunc(x: &Dec) -> BigInt {
    if x.s <= 0 {
        &x.n * pow10((-x.s) as u64)
    } else {
        // BigInt division truncates toward zero
        &x.n / pow10(x.s as u64)
    }
}

fn expected(conv: &str, x: &Dec) -> String {
    let t = trunc(x);
    let fits = |lo: BigInt, hi: BigInt| if t >= lo && t <= hi { format!("Some({})", t) } else { "None".to_string() };
    match conv.trim_start_matches("ref ") {
        "to_i64" => fits(BigInt::from(i64::MIN), BigInt::from(i64::MAX)),
        "to_i128" => fits(BigInt::from(i128::MIN), BigInt::from(i128::MAX)),
        "to_u64" => {
            if x.n.is_negative() {
                "None".into()
            } else {
                fits(BigInt::zero(), BigInt::from(u64::MAX))
            }
        }
        "to_u128" => {
            if x.n.is_negative() {
                "None".into()
            } else {
                fits(BigInt::zero(), BigInt::from(u128::MAX))
            }
        }
        "to_bigint" => format!("Some({})", t),
        "is_integer" => {
            let frac_zero = x.s <= 0 || (&x.n % pow10(x.s as u64)).is_zero();
            frac_zero.to_string()
        }
        _ => unreachable!(),
    }
}

fn observe(conv: &str, xb: &BigDecimal) -> String {
    fn f<T: std::fmt::Display>(o: Option<T>) -> String {
        match o {
            Some(v) => format!("Some({})", v),
            None => "None".into(),
        }
    }
    match conv {
        "to_i64" => f(xb.to_i64()),
        "to_u64" => f(xb.to_u64()),
        "to_i128" => f(xb.to_i128()),
        "to_u128" => f(xb.to_u128()),
        "to_bigint" => f(xb.to_bigint()),
        "ref to_i64" => f(xb.to_ref().to_i64()),
        "ref to_u64" => f(xb.to_ref().to_u64()),
        "ref to_i128" => f(xb.to_ref().to_i128()),
        "ref to_u128" => f(xb.to_ref().to_u128()),
        "is_integer" => xb.is_integer().to_string(),
        _ => unreachable!(),
    }
}

fn check(conv: &str, xb: &BigDecimal, x: &Dec) -> Option<Violation> {
    let want = expected(conv, x);
    let case = json!({"conv": conv, "x": x.show()});
    let mk = |class: &str, obs: String| Violation::new(&format!("convert {}", conv), class, case.clone(), want.clone(), obs).attr("conv", conv).attr("scale", x.s.to_string()).attr("zero", x.n.is_zero());
    match guard(|| observe(conv, xb)) {
        Err(p) => Some(mk("panic", p)),
        Ok(g) if g != want => Some(mk("wrong_value", g)),
        _ => None,
    }
}

fn check_all(run: &Run, x: &Dec, t: &mut Tally) {
    let xb = bd(x);
    t.states += 1;
    for c in CONVS {
        t.transitions += 1;
        if x.s != 0 {
            t.nontrivial += 1;
        }
        if let Some(v) = check(c, &xb, x) {
            run.report(v);
        }
    }
}

fn replay(case: &Value) -> Vec<Violation> {
    if case.get("ctor").is_some() {
        // constructor case: re-run every constructor form of the recorded type on the recorded value
        let (ty, val) = (case["type"].as_str().unwrap_or(""), case["value"].as_str().unwrap_or(""));
        let mut out = vec![];
        macro_rules! one {
            ($t:ty) => {{
                let v: $t = val.parse().expect("constructor value");
                let want = Dec { n: BigInt::from(v), s: 0 };
                let forms: Vec<(&str, Result<BigDecimal, String>)> = vec![("From<T>", guard(|| BigDecimal::from(v))), ("From<&T>", guard(|| BigDecimal::from(&v))), ("From<(T,i64)>", guard(|| BigDecimal::from((v, 0i64))))];
                for (name, got) in forms {
                    match got {
                        Ok(x) if dec(&x) == want => {}
                        Ok(x) => out.push(Violation::new(&format!("construct {}", name), "wrong_value", case.clone(), want.show(), show(&x))),
                        Err(p) => out.push(Violation::new(&format!("construct {}", name), "panic", case.clone(), want.show(), p)),
                    }
                }
            }};
        }
        match ty {
            "u8" => one!(u8),
            "u16" => one!(u16),
            "u32" => one!(u32),
            "u64" => one!(u64),
            "u128" => one!(u128),
            "i8" => one!(i8),
            "i16" => one!(i16),
            "i32" => one!(i32),
            "i64" => one!(i64),
            "i128" => one!(i128),
            _ => {}
        }
        return out;
    }
    let x = jd(&case["x"]);
    let c = CONVS.into_iter().find(|c| *c == case["conv"].as_str().unwrap()).unwrap();
    check(c, &bd(&x), &x).into_iter().collect()
}

/// every representation (n*10^k, s) with s in -40..=40 that denotes the value exactly
fn representations(v: &Dec) -> Vec<Dec> {
    let n = v.norm();
    let mut out = vec![];
    for s in -40i128..=40 {
        if s >= n.s {
            out.push(Dec { n: &n.n * pow10((s - n.s) as u64), s });
        }
    }
    out
}

macro_rules! ctor_checks {
    ($run:expr, $t:expr, $($ty:ty),*) => {$(
        // the type's own limits, and the limits of EVERY integer width (+-2^e + d) that fit in the type: a
        // constructor that takes a shortcut by width must be exact on both sides of every narrower width
        let mut vals: Vec<$ty> = vec![<$ty>::MIN, <$ty>::MAX, 0 as $ty, 1 as $ty, (0 as $ty).wrapping_sub(1), <$ty>::MAX - 1, <$ty>::MIN + 1, 10 as $ty];
        for e in [7u32, 8, 15, 16, 31, 32, 63, 64, 126, 127] {
            for d in -3i128..=3 {
                if e < 127 {
                    for c in [(1i128 << e) + d, -(1i128 << e) + d] {
                        if let Ok(v) = <$ty>::try_from(c) {
                            vals.push(v);
                        }
                    }
                }
                if let Some(c) = (1u128 << e).checked_add_signed(d) {
                    if let Ok(v) = <$ty>::try_from(c) {
                        vals.push(v);
                    }
                }
            }
        }
        vals.sort();
        vals.dedup();
        for v in vals {
            let want = Dec { n: BigInt::from(v), s: 0 };
            let forms: Vec<(&str, Result<BigDecimal, String>)> = vec![
                ("From<T>", guard(|| BigDecimal::from(v))),
                ("From<&T>", guard(|| BigDecimal::from(&v))),
                ("From<(T,i64)>", guard(|| BigDecimal::from((v, 0i64)))),
            ];
            for (name, got) in forms {
                $t.transitions += 1;
                $t.states += 1;
                let case = json!({"ctor": name, "type": stringify!($ty), "value": v.to_string()});
                match got {
                    Ok(x) if dec(&x) == want => {}
                    Ok(x) => $run.report(Violation::new(&format!("construct {}", name), "wrong_value", case, want.show(), show(&x))),
                    Err(p) => $run.report(Violation::new(&format!("construct {}", name), "panic", case, want.show(), p)),
                }
            }
            // a scale given with the tuple form is stored verbatim
            for s in [7i64, -7] {
                $t.transitions += 1;
                match guard(|| BigDecimal::from((v, s))) {
                    Ok(x) if dec(&x) == (Dec { n: BigInt::from(v), s: s as i128 }) => {}
                    other => $run.report(Violation::new("construct From<(T,i64)>", "wrong_value", json!({"ctor": "From<(T,i64)>", "type": stringify!($ty), "value": v.to_string(), "scale": s}), format!("{}e{}", v, -s), format!("{:?}", other.map(|x| show(&x))))),
                }
            }
        }
    )*};
}

fn main() {
    let (run, inv) = Run::start("C15");
    if let Invocation::Replay(f) = &inv {
        run.replay(f, replay);
    }
    let tier = run.tier();
    run.rule("every decimal of each sub-domain x {to_i64,to_u64,to_i128,to_u128 on values and references, to_bigint, is_integer} against truncation toward zero of the exact value (None when it does not fit; any negative decimal -> None for unsigned targets); constructors from every primitive integer type, BigInt and (T, scale) must store exactly what they are given; non-trivial = scale != 0 (a re-scaling is needed); cases distinct by construction");

    // S1: type limits +- offsets in every exact representation with scale -40..40
    let mut bases: Vec<(String, BigInt)> = vec![];
    for (name, lo, hi) in [
        ("i64", BigInt::from(i64::MIN), BigInt::from(i64::MAX)),
        ("u64", BigInt::from(0), BigInt::from(u64::MAX)),
        ("i128", BigInt::from(i128::MIN), BigInt::from(i128::MAX)),
        ("u128", BigInt::from(0), BigInt::from(u128::MAX)),
        ("i32", BigInt::from(i32::MIN), BigInt::from(i32::MAX)),
    ] {
        for (tag, b) in [("MIN", lo.clone()), ("MIN+1", &lo + 1), ("MAX-1", &hi - 1), ("MAX", hi.clone())] {
            bases.push((format!("{} {}", name, tag), b));
        }
    }
    for b in [-1i64, 0, 1] {
        bases.push((format!("{}", b), BigInt::from(b)));
    }
    let deltas: Vec<Dec> = vec![Dec::new(-2, 0), Dec::new(-1, 0), Dec::new(-5, 1), Dec::new(-1, 1), Dec::new(0, 0), Dec::new(1, 1), Dec::new(5, 1), Dec::new(1, 0), Dec::new(2, 0), Dec::new(999, 3), Dec::new(-999, 3), Dec::new(1, 25)];
    run.bound("S1_bases", bases.len());
    run.bound("S1_representations", "every scale -40..=40 that denotes the value exactly");
    run.par("S1 type limits x offsets x representations", bases.len(), |i| {
        let mut t = Tally::default();
        for d in deltas.iter() {
            let v = Dec { n: bases[i].1.clone(), s: 0 }.add(d);
            for r in representations(&v) {
                check_all(&run, &r, &mut t);
            }
        }
        run.sample(|| json!({"conv": "to_i64", "x": Dec { n: bases[i].1.clone() * 10, s: 1 }.show(), "base": bases[i].0}));
        t
    });

    // S2: small-scope grid
    let nmax: i64 = tier.pick(2_000, 2_000_000);
    let s2max: i128 = tier.pick(6, 8);
    run.bound("S2_unscaled_max", nmax);
    run.bound("S2_scales", format!("-{0}..={0}", s2max));
    run.par("S2 small-scope grid", (nmax + 1) as usize, |i| {
        let mut t = Tally::default();
        for sign in [1i64, -1] {
            if i == 0 && sign < 0 {
                continue;
            }
            for s in -s2max..=s2max {
                check_all(&run, &Dec::new(i as i64 * sign, s), &mut t);
            }
        }
        t
    });

    // S3: small unscaled values pushed past each limit by negative scales; long values with positive scales
    let smalls: Vec<i64> = vec![1, 2, 3, 4, 5, 8, 9, 10, 17, 18, 19, 92, 93, 170, 171, 184, 185, 340, 341, 922, 923, 1844, 1845, 3402, 3403];
    run.par("S3 negative scales pushing past the limits", smalls.len(), |i| {
        let mut t = Tally::default();
        for sign in [1i64, -1] {
            for s in -45i128..=3 {
                check_all(&run, &Dec::new(smalls[i] * sign, s), &mut t);
            }
        }
        t
    });
    let lens: &[usize] = if tier.is_thorough() { &LONG_LENS_THOROUGH } else { &[19, 20, 39, 40, 60] };
    let longs = long_ints(lens, run.seed());
    run.bound("S3_long_lengths", json!(lens));
    run.par("S3 long values x scales -40..40", longs.len(), |i| {
        let mut t = Tally::default();
        for sign in [1, -1] {
            for s in -40i128..=40 {
                check_all(&run, &Dec { n: &longs[i].1 * sign, s }, &mut t);
            }
        }
        t
    });

    // S5: small integers written with k trailing zero fraction digits, every k to K (digit-count estimates
    // that decide "is it below one" change with the bit length)
    let kmax: usize = tier.pick(1300, 12000);
    run.bound("S5_trailing_fraction_zeros", format!("0..={}", kmax));
    run.par("S5 integers with k fraction zeros", kmax + 1, |k| {
        let mut t = Tally::default();
        let p = pow10(k as u64);
        for v in [BigInt::from(1), BigInt::from(-1), BigInt::from(2), BigInt::from(9), BigInt::from(i64::MAX), BigInt::from(i64::MIN), BigInt::from(u64::MAX)] {
            check_all(&run, &Dec { n: &v * &p, s: k as i128 }, &mut t);
            // and just below / above the integer
            check_all(&run, &Dec { n: &v * &p + 1, s: k as i128 }, &mut t);
            check_all(&run, &Dec { n: &v * &p - 1, s: k as i128 }, &mut t);
        }
        t
    });

    // S6: structured operands x scales x written-out trailing zeros
    let st = structured_ints(tier.pick(80, 300), tier.pick(24, 60), run.seed());
    run.bound("S6_structured_integers", st.len());
    run.par("S6 structured operands", st.len(), |i| {
        let mut t = Tally::default();
        let l = ndigits(&st[i]) as i128;
        for x in structured_decimals(&st[i..=i], &[0, 1, 2, -1, -3, l - 1, l, l + 1, 19, 20, 38, 39], &[0, 1, 12, 20]) {
            check_all(&run, &x, &mut t);
        }
        t
    });

    // S7: coefficients written as 64-bit words drawn from {0, 1, 12345678, 10^19 - 1, 2^64 - 1}, EVERY combination
    // over one to six words (zero words in the middle, small words next to full ones), at every scale that moves the
    // value across the 64- and 128-bit limits: fixed-size word buffers and word-wise division are decided here
    let sw = sparse_words(tier.pick(6, 7), &[0, 1, 12_345_678, 9_999_999_999_999_999_999, u64::MAX]);
    run.bound("S7_sparse_word_coefficients", sw.len());
    run.par("S7 sparse-word coefficients", (sw.len() + 63) / 64, |blk| {
        let mut t = Tally::default();
        for n in sw[blk * 64..((blk + 1) * 64).min(sw.len())].iter() {
            let l = ndigits(n) as i128;
            for s in [0i128, 1, 3, 18, 19, 20, 38, 39, l - 39, l - 20, l - 19, l - 1, l, -1] {
                for sign in [1, -1] {
                    check_all(&run, &Dec { n: n * sign, s }, &mut t);
                }
            }
        }
        t
    });

    // S4: zeros with scales; constructors
    run.seq("S4 zeros and constructors", || {
        let mut t = Tally::default();
        for s in [-40i128, -2, -1, 0, 1, 2, 5, 40] {
            check_all(&run, &Dec::new(0, s), &mut t);
        }
        ctor_checks!(run, t, u8, u16, u32, u64, u128, i8, i16, i32, i64, i128);
        for v in [BigInt::from(0), BigInt::from(-1), pow10(40) + 1, -(pow10(60))] {
            t.transitions += 2;
            if dec(&BigDecimal::from(v.clone())) != (Dec { n: v.clone(), s: 0 }) {
                run.report(Violation::new("construct From<BigInt>", "wrong_value", json!({"ctor": "From<BigInt>", "value": v.to_string()}), v.to_string(), show(&BigDecimal::from(v.clone()))));
            }
            if dec(&BigDecimal::from((v.clone(), -3i64))) != (Dec { n: v.clone(), s: -3 }) {
                run.report(Violation::new("construct From<(BigInt,i64)>", "wrong_value", json!({"ctor": "From<(BigInt,i64)>", "value": v.to_string()}), v.to_string(), "different"));
            }
        }
        for (name, got, want) in [
            ("from_i64", BigDecimal::from_i64(i64::MIN), BigInt::from(i64::MIN)),
            ("from_u64", BigDecimal::from_u64(u64::MAX), BigInt::from(u64::MAX)),
            ("from_i128", BigDecimal::from_i128(i128::MIN), BigInt::from(i128::MIN)),
            ("from_u128", BigDecimal::from_u128(u128::MAX), BigInt::from(u128::MAX)),
            ("from_i32", BigDecimal::from_i32(-1), BigInt::from(-1)),
            ("from_u8", BigDecimal::from_u8(255), BigInt::from(255)),
        ] {
            t.transitions += 1;
            match got {
                Some(x) if dec(&x) == (Dec { n: want.clone(), s: 0 }) => {}
                other => run.report(Violation::new(&format!("construct FromPrimitive::{}", name), "wrong_value", json!({"ctor": name}), want.to_string(), format!("{:?}", other.map(|x| show(&x))))),
            }
        }
        t
    });
    run.finish();
}
