//! C17 — serde round-trips every decimal; JSON numbers are read digit for digit.
use ::serde::de::IntoDeserializer;
use ::serde::{Deserialize, Serialize};
use bigdecimal::BigDecimal;
use num_bigint::BigInt;
use num_traits::Zero;
use props::alpha::*;
use props::conv::*;
use props::engine::*;
use serde_json::{json, Value};
use spec::float::{decode_f32, decode_f64, exact_value};
use spec::numeral::expected_parse;
use spec::*;

#[derive(Serialize, Deserialize)]
struct WithNum {
    #[serde(with = "bigdecimal::serde::json_num")]
    value: BigDecimal,
}
#[derive(Serialize, Deserialize)]
struct WithOpt {
    #[serde(with = "bigdecimal::serde::json_num_option")]
    value: Option<BigDecimal>,
}
#[derive(Serialize, Deserialize)]
struct Plain {
    value: BigDecimal,
}

/// true in the child exploration against the subject built with its `string-only` feature: the plain
/// `Deserialize` impl then accepts strings only (numbers and primitive tokens are refused by design), while the
/// JSON-number adapters keep reading and writing numbers
fn string_only() -> bool {
    std::env::var("VERIF_IS_VARIANT").as_deref() == Ok("string_only")
}

fn scale_limit() -> i128 {
    let s = option_env!("RUST_BIGDECIMAL_SERDE_SCALE_LIMIT").unwrap_or("150000");
    if s.eq_ignore_ascii_case("none") {
        0
    } else {
        s.parse().unwrap()
    }
}
fn upper_threshold() -> i128 {
    option_env!("RUST_BIGDECIMAL_FMT_EXPONENTIAL_UPPER_THRESHOLD").unwrap_or("15").parse().unwrap()
}

const ROUTES: [&str; 6] = ["to_string/from_str", "to_value/from_value", "struct default", "struct json_num", "struct json_num_option", "to_vec/from_slice"];

fn route(r: &str, x: &BigDecimal) -> Result<BigDecimal, String> {
    let e = |e: serde_json::Error| e.to_string();
    match r {
        "to_string/from_str" => serde_json::from_str::<BigDecimal>(&serde_json::to_string(x).map_err(e)?).map_err(e),
        "to_value/from_value" => serde_json::from_value::<BigDecimal>(serde_json::to_value(x).map_err(e)?).map_err(e),
        "to_vec/from_slice" => serde_json::from_slice::<BigDecimal>(&serde_json::to_vec(x).map_err(e)?).map_err(e),
        "struct default" => serde_json::from_str::<Plain>(&serde_json::to_string(&Plain { value: x.clone() }).map_err(e)?).map(|s| s.value).map_err(e),
        "struct json_num" => serde_json::from_str::<WithNum>(&serde_json::to_string(&WithNum { value: x.clone() }).map_err(e)?).map(|s| s.value).map_err(e),
        "struct json_num_option" => serde_json::from_str::<WithOpt>(&serde_json::to_string(&WithOpt { value: Some(x.clone()) }).map_err(e)?).map_err(e).and_then(|s| s.value.ok_or_else(|| "None".to_string())),
        _ => unreachable!(),
    }
}

/// serialize -> deserialize must give an equal decimal (identical digits and scale wherever Display keeps them)
fn check_round_trip(r: &str, x: &Dec) -> Option<Violation> {
    let xb = bd(x);
    let case = json!({"kind": "round_trip", "route": r, "x": x.show()});
    let mk = |class: &str, exp: String, obs: String| Violation::new(&format!("serde {}", r), class, case.clone(), exp, obs).attr("route", r).attr("zero", x.n.is_zero()).attr("scale", x.s.to_string());
    let lim = scale_limit();
    let beyond = lim > 0 && x.s.abs() > lim;
    match guard(|| route(r, &xb)) {
        Err(p) => Some(mk("panic", x.show(), p)),
        Ok(Err(e)) => {
            // the JSON-number adapters refuse scales beyond the configured limit when reading
            if beyond && r.contains("json_num") {
                None
            } else {
                Some(mk("round_trip_failed", x.show(), e))
            }
        }
        Ok(Ok(y)) => {
            let y = dec(&y);
            if beyond && r.contains("json_num") {
                return Some(mk("limit_not_enforced", format!("an error (|scale| {} > limit {})", x.s.abs(), lim), y.show()));
            }
            if !y.eq_val(x) {
                return Some(mk("wrong_value", x.show(), y.show()));
            }
            let display_pads = x.s < 0 && -x.s <= upper_threshold();
            if !display_pads && y != *x {
                return Some(mk("representation_changed", x.show(), y.show()));
            }
            None
        }
    }
}

// (reading a JSON number through an intermediate serde_json::Value is not an entry: serde_json itself hands
// Value numbers to visitors as f64, which the decimal type cannot influence)
const ENTRIES: [&str; 3] = ["BigDecimal", "json_num", "json_num_option"];

fn read_json(entry: &str, doc: &str) -> Result<Option<BigDecimal>, String> {
    let e = |e: serde_json::Error| e.to_string();
    match entry {
        "BigDecimal" => serde_json::from_str::<BigDecimal>(doc).map(Some).map_err(e),
        "json_num" => serde_json::from_str::<WithNum>(&format!("{{\"value\":{}}}", doc)).map(|s| Some(s.value)).map_err(e),
        "json_num_option" => serde_json::from_str::<WithOpt>(&format!("{{\"value\":{}}}", doc)).map(|s| s.value).map_err(e),
        _ => unreachable!(),
    }
}

/// one JSON document (a bare token) through one entry point
fn check_doc(entry: &str, doc: &str) -> Option<Violation> {
    let case = json!({"kind": "json", "entry": entry, "doc": doc});
    let lim = scale_limit();
    // serde_json's own verdict on "is this a JSON number"
    let is_number = serde_json::from_str::<serde_json::Number>(doc).is_ok();
    let is_string = doc.len() >= 2 && doc.starts_with('"') && doc.ends_with('"') && serde_json::from_str::<String>(doc).is_ok();
    let is_null = doc == "null";
    // the adapters only read numbers (and null); the plain impl also reads numeric strings
    let want: Result<Option<Dec>, ()> = if is_number && entry == "BigDecimal" && string_only() {
        Err(())
    } else if is_number {
        match expected_parse(doc) {
            Some(d) if (entry == "json_num" || entry == "json_num_option") && lim > 0 && d.s.abs() > lim => Err(()),
            Some(d) => Ok(Some(d)),
            None => Err(()), // exponent beyond the 64-bit scale
        }
    } else if is_string && entry == "BigDecimal" {
        let inner: String = serde_json::from_str(doc).unwrap();
        expected_parse(&inner).map(Some).ok_or(())
    } else if is_string && entry == "json_num" {
        // a numeric string handed to the number adapter is forwarded to the decimal parser
        let inner: String = serde_json::from_str(doc).unwrap();
        match expected_parse(&inner) {
            Some(d) if lim > 0 && d.s.abs() > lim => Err(()),
            Some(d) => Ok(Some(d)),
            None => Err(()),
        }
    } else if is_null && entry == "json_num_option" {
        Ok(None)
    } else {
        Err(())
    };
    let show = |w: &Result<Option<Dec>, ()>| match w {
        Ok(Some(d)) => format!("Ok({})", d.show()),
        Ok(None) => "Ok(None)".into(),
        Err(()) => "an error".into(),
    };
    let mk = |class: &str, obs: String| Violation::new(&format!("serde read {}", entry), class, case.clone(), show(&want), obs).attr("entry", entry).attr("is_number", is_number);
    match guard(|| read_json(entry, doc)) {
        Err(p) => Some(mk("panic", p)),
        Ok(got) => {
            let got: Result<Option<Dec>, ()> = got.map(|o| o.map(|b| dec(&b))).map_err(|_| ());
            if got == want {
                None
            } else {
                let class = match (&want, &got) {
                    (Err(()), Ok(_)) => {
                        if is_number {
                            "limit_not_enforced"
                        } else {
                            "accepted"
                        }
                    }
                    (Ok(_), Err(())) => "rejected",
                    _ => "wrong_value",
                };
                Some(mk(class, show(&got)))
            }
        }
    }
}

macro_rules! int_tokens {
    ($run:expr, $t:expr, $($ty:ty),*) => {$(
        for v in [<$ty>::MIN, <$ty>::MAX, 0 as $ty, 1 as $ty, (0 as $ty).wrapping_sub(1), <$ty>::MAX / 3] {
            $t.transitions += 1;
            $t.states += 1;
            let want = Dec { n: BigInt::from(v), s: 0 };
            let d: ::serde::de::value::Error;
            let got = guard(|| BigDecimal::deserialize(IntoDeserializer::<::serde::de::value::Error>::into_deserializer(v)));
            let _ = { d = ::serde::de::Error::custom("x"); &d };
            let case = json!({"kind": "token", "type": stringify!($ty), "value": v.to_string()});
            match got {
                Ok(Ok(x)) if dec(&x) == want => {}
                // string-only: `deserialize_str` is a hint; a format may refuse the token or hand it over anyway
                Ok(Err(_)) if string_only() => {}
                Ok(other) => $run.report(Violation::new("serde token", "wrong_value", case, want.show(), format!("{:?}", other.map(|x| show(&x)).map_err(|e| e.to_string())))),
                Err(p) => $run.report(Violation::new("serde token", "panic", case, want.show(), p)),
            }
        }
    )*};
}

fn check_float_token_f64(bits: u64) -> Option<Violation> {
    let f = f64::from_bits(bits);
    let want = exact_value(&decode_f64(bits));
    let got = guard(|| BigDecimal::deserialize(IntoDeserializer::<::serde::de::value::Error>::into_deserializer(f)));
    let case = json!({"kind": "token", "type": "f64", "bits": format!("{:#x}", bits)});
    judge_float(case, want, got)
}
fn check_float_token_f32(bits: u32) -> Option<Violation> {
    let f = f32::from_bits(bits);
    let want = exact_value(&decode_f32(bits));
    let got = guard(|| BigDecimal::deserialize(IntoDeserializer::<::serde::de::value::Error>::into_deserializer(f)));
    let case = json!({"kind": "token", "type": "f32", "bits": format!("{:#x}", bits)});
    judge_float(case, want, got)
}
fn judge_float(case: Value, want: Option<Dec>, got: Result<Result<BigDecimal, ::serde::de::value::Error>, String>) -> Option<Violation> {
    // string-only: `deserialize_str` is a hint; a format may refuse the token (fine) or hand it over anyway (then
    // the value must be exact)
    if string_only() && matches!(got, Ok(Err(_))) {
        return None;
    }
    let exp = want.as_ref().map(|w| w.show()).unwrap_or("an error".into());
    match (got, &want) {
        (Err(p), _) => Some(Violation::new("serde token", "panic", case, exp, p)),
        (Ok(Ok(x)), Some(w)) if dec(&x).eq_val(w) => None,
        (Ok(Err(_)), None) => None,
        (Ok(other), _) => Some(Violation::new("serde token", "wrong_value", case, exp, format!("{:?}", other.map(|x| show(&x)).map_err(|e| e.to_string())))),
    }
}

fn for_each_string(alphabet: &[u8], max_len: usize, f: &mut dyn FnMut(&str)) {
    let k = alphabet.len();
    let mut buf = String::new();
    for len in 1..=max_len {
        let total = k.pow(len as u32);
        for code in 0..total {
            buf.clear();
            let mut c = code;
            for _ in 0..len {
                buf.push(alphabet[c % k] as char);
                c /= k;
            }
            f(&buf);
        }
    }
}

/// one token (primitive integer / float / string, or a JSON document) handed to `Deserialize::deserialize`
/// (place = None) or to `Deserialize::deserialize_in_place` over an existing decimal
fn de_token(ty: &str, val: &str, place: Option<&mut BigDecimal>) -> Result<BigDecimal, String> {
    type E = ::serde::de::value::Error;
    macro_rules! via {
        ($d:expr) => {{
            let d = $d;
            match place {
                None => BigDecimal::deserialize(d).map_err(|e| e.to_string()),
                Some(p) => <BigDecimal as Deserialize>::deserialize_in_place(d, p).map(|_| p.clone()).map_err(|e| e.to_string()),
            }
        }};
    }
    macro_rules! prim {
        ($t:ty) => {
            via!(IntoDeserializer::<E>::into_deserializer(val.parse::<$t>().expect("token value")))
        };
    }
    match ty {
        "u8" => prim!(u8),
        "u16" => prim!(u16),
        "u32" => prim!(u32),
        "u64" => prim!(u64),
        "u128" => prim!(u128),
        "i8" => prim!(i8),
        "i16" => prim!(i16),
        "i32" => prim!(i32),
        "i64" => prim!(i64),
        "i128" => prim!(i128),
        "f32" => prim!(f32),
        "f64" => prim!(f64),
        "str" => via!(IntoDeserializer::<E>::into_deserializer(val)),
        "json" => {
            let mut de = serde_json::Deserializer::from_str(val);
            via!(&mut de)
        }
        _ => panic!("unknown token type"),
    }
}

/// T3: refilling an existing decimal in place must give exactly what a fresh deserialisation of the token gives
fn check_in_place(ty: &str, val: &str, place: &Dec) -> Option<Violation> {
    let case = json!({"kind": "in_place", "type": ty, "value": val, "place": place.show()});
    let fresh = guard(|| de_token(ty, val, None));
    let mut slot = bd(place);
    let refilled = guard(|| de_token(ty, val, Some(&mut slot)));
    let show_r = |r: &Result<Result<BigDecimal, String>, String>| match r {
        Ok(Ok(x)) => show(x),
        Ok(Err(e)) => format!("Err({})", e),
        Err(p) => format!("panic: {}", p),
    };
    let same = match (&fresh, &refilled) {
        (Ok(Ok(a)), Ok(Ok(b))) => dec(a) == dec(b) && dec(&slot) == dec(a),
        (Ok(Err(_)), Ok(Err(_))) => true,
        _ => false,
    };
    if same {
        None
    } else {
        Some(Violation::new("serde deserialize_in_place", "differs_from_fresh_deserialize", case, show_r(&fresh), format!("{} (place now {})", show_r(&refilled), show(&slot))).attr("token", ty))
    }
}

fn replay(case: &Value) -> Vec<Violation> {
    match case["kind"].as_str().unwrap() {
        "round_trip" => {
            let r = ROUTES.into_iter().find(|r| *r == case["route"].as_str().unwrap()).unwrap();
            if let Some(a) = case.get("after") {
                // a recorded history: the earlier serialisation (of another decimal) first
                let prev = bd(&jd(a));
                let _ = guard(|| route(r, &prev));
            }
            check_round_trip(r, &jd(&case["x"]))
                .map(|mut v| {
                    if let (Some(a), Some(o)) = (case.get("after"), v.case.as_object_mut()) {
                        o.insert("after".into(), a.clone());
                    }
                    v
                })
                .into_iter()
                .collect()
        }
        "in_place" => check_in_place(case["type"].as_str().unwrap(), case["value"].as_str().unwrap(), &jd(&case["place"])).into_iter().collect(),
        "json" => {
            let e = ENTRIES.into_iter().find(|e| *e == case["entry"].as_str().unwrap()).unwrap();
            check_doc(e, case["doc"].as_str().unwrap()).into_iter().collect()
        }
        _ => {
            let bits = u64::from_str_radix(case["bits"].as_str().unwrap_or("0x0").trim_start_matches("0x"), 16).unwrap();
            if case["type"] == "f32" {
                check_float_token_f32(bits as u32).into_iter().collect()
            } else if case["type"] == "f64" {
                check_float_token_f64(bits).into_iter().collect()
            } else {
                vec![]
            }
        }
    }
}

fn main() {
    let (run, inv) = Run::start("C17");
    if let Invocation::Replay(f) = &inv {
        run.replay(f, replay);
    }
    let tier = run.tier();
    let lim = scale_limit();
    run.bound("serde_scale_limit", lim as i64);
    run.rule("round trips: every decimal of each sub-domain x 6 routes (string form via to_string/to_value/to_vec, derive structs with the default impl, json_num and json_num_option) must come back equal, with identical digits and scale wherever Display keeps them; reads: every string of length <= L over {0,1,9,-,+,.,e,E} (and quoted, and grammar-generated long numbers) through 4 entry points, expected outcome = serde_json's own 'is a number' verdict + the model's digit-for-digit denotation + the scale limit of the adapters; tokens of every integer/float width exact; non-trivial = documents/decimals that must produce a value; cases distinct by construction");
    run.assume("the scale limit is required of both JSON-number adapters (json_num and json_num_option)");
    run.assume("in the string-only build the plain Deserialize impl asks for a string: serde_json refuses a JSON number there (expected: an error), token deserializers may refuse a primitive or hand it over anyway (then it must convert exactly); everything else is judged as in the default build");

    // R1: small-scope round trips
    let nmax: i64 = tier.pick(999, 199_999);
    run.bound("R1_unscaled_max", nmax);
    run.bound("R1_scales", "-20..=20");
    run.par("R1 small-scope round trips", (nmax + 1) as usize, |i| {
        let mut t = Tally::default();
        for sign in [1i64, -1] {
            if i == 0 && sign < 0 {
                continue;
            }
            for s in -20i128..=20 {
                let x = Dec::new(i as i64 * sign, s);
                t.states += 1;
                for r in ROUTES {
                    t.transitions += 1;
                    t.nontrivial += 1;
                    if let Some(v) = check_round_trip(r, &x) {
                        run.report(v);
                    }
                }
            }
        }
        if i % 97 == 1 {
            run.sample(|| json!({"kind": "round_trip", "route": "struct json_num", "x": Dec::new(i as i64, 3).show()}));
        }
        t
    });

    // R2: long operands x scale alphabet around the limit
    let lens: &[usize] = if tier.is_thorough() { &LONG_LENS_THOROUGH } else { &[1, 2, 20, 40, 400] };
    let mut scales: Vec<i128> = vec![0, 1, -1, 15, -15, 16, -16, 17, -17, 21, -21];
    for d in [-1i128, 0, 1] {
        scales.push(lim + d);
        scales.push(-(lim + d));
    }
    let mut r2: Vec<Dec> = vec![];
    for (_, n) in long_ints(lens, run.seed()) {
        for &s in scales.iter() {
            r2.push(Dec { n: n.clone(), s });
            r2.push(Dec { n: -n.clone(), s });
        }
    }
    for &s in scales.iter() {
        r2.push(Dec::new(0, s));
    }
    // unscaled integers spelling machine-word limits, as integers and as pure fractions
    for d in limit_spellings() {
        let n = big(&d);
        for s in [0i128, d.len() as i128, d.len() as i128 + 3, 1, -2] {
            r2.push(Dec { n: n.clone(), s });
            r2.push(Dec { n: -n.clone(), s });
        }
    }
    run.bound("R2_scales", json!(scales.iter().map(|s| *s as i64).collect::<Vec<_>>()));
    run.par("R2 long operands, scales around the limit, zeros with scales", r2.len(), |i| {
        let mut t = Tally::default();
        t.states += 1;
        for r in ROUTES {
            t.transitions += 1;
            t.nontrivial += 1;
            if let Some(v) = check_round_trip(r, &r2[i]) {
                run.report(v);
            }
        }
        t
    });
    // R2b structured operands (word limits, word-crossing products, patterns at every length, carry chains)
    let st = structured_ints(tier.pick(80, 300), tier.pick(24, 60), run.seed());
    run.bound("R2b_structured_integers", st.len());
    run.par("R2b structured operands", st.len(), |i| {
        let mut t = Tally::default();
        let l = ndigits(&st[i]) as i128;
        for x in structured_decimals(&st[i..=i], &[0, 1, -1, l, l + 3, 16, -16], &[0, 1, 12]) {
            t.states += 1;
            for r in ROUTES {
                t.transitions += 1;
                t.nontrivial += 1;
                if let Some(v) = check_round_trip(r, &x) {
                    run.report(v);
                }
            }
        }
        t
    });
    // R2c: call histories of length two over weak-key pairs: serialise A, then round-trip B on the same thread
    let wk = weak_key_pairs();
    run.bound("R2c_weak_key_pairs", wk.len());
    run.par("R2c round-trip histories over weak-key pairs", (wk.len() + 15) / 16, |blk| {
        let mut t = Tally::default();
        for (a, b) in wk[blk * 16..((blk + 1) * 16).min(wk.len())].iter() {
            for (sa, sb) in [(0i128, 0i128), (7, 7), (3, -2)] {
                let (xa, xb) = (Dec { n: a.clone(), s: sa }, Dec { n: b.clone(), s: sb });
                let pa = bd(&xa);
                t.states += 1;
                for r in ROUTES {
                    t.transitions += 2;
                    t.nontrivial += 1;
                    let _ = guard(|| route(r, &pa));
                    if let Some(mut v) = check_round_trip(r, &xb) {
                        if let Some(o) = v.case.as_object_mut() {
                            o.insert("after".into(), json!(xa.show()));
                        }
                        run.report(v.attr("history", true));
                    }
                }
            }
        }
        t
    });
    // Option: None <-> null
    run.seq("R3 Option None / null", || {
        let mut t = Tally::default();
        t.states += 1;
        t.transitions += 2;
        let s = serde_json::to_string(&WithOpt { value: None }).unwrap_or_default();
        if s != "{\"value\":null}" {
            run.report(Violation::new("serde struct json_num_option", "wrong_value", json!({"kind": "json", "entry": "json_num_option", "doc": "null"}), "{\"value\":null}", s));
        }
        match serde_json::from_str::<WithOpt>("{\"value\":null}") {
            Ok(w) if w.value.is_none() => {}
            other => run.report(Violation::new("serde read json_num_option", "wrong_value", json!({"kind": "json", "entry": "json_num_option", "doc": "null"}), "None", format!("{:?}", other.map(|w| w.value.map(|v| show(&v))).map_err(|e| e.to_string())))),
        }
        t
    });

    // J1: every string of length <= L over the numeric alphabet as a JSON document, bare and quoted
    let l: usize = tier.pick(6, 8);
    let alphabet = b"019-+.eE";
    run.bound("J1_alphabet", "0 1 9 - + . e E");
    run.bound("J1_max_len", l);
    // shard by first character x second character
    let k = alphabet.len();
    run.par("J1 all short JSON documents", k * k + 1, |item| {
        let mut t = Tally::default();
        let mut visit = |doc: &str| {
            t.states += 1;
            let numeric = serde_json::from_str::<serde_json::Number>(doc).is_ok();
            if numeric {
                t.nontrivial += 1;
            }
            for e in ENTRIES {
                t.transitions += 1;
                if let Some(v) = check_doc(e, doc) {
                    run.report(v);
                }
            }
            // the same text as a JSON string
            let quoted = format!("\"{}\"", doc);
            for e in ["BigDecimal", "json_num"] {
                t.transitions += 1;
                if let Some(v) = check_doc(e, &quoted) {
                    run.report(v);
                }
            }
        };
        if item == k * k {
            for &a in alphabet.iter() {
                visit(&(a as char).to_string());
            }
            for w in ["null", "true", "nan", "NaN", "Infinity", "[1]", "{}", "\"\"", ""] {
                visit(w);
            }
        } else {
            let prefix = format!("{}{}", alphabet[item / k] as char, alphabet[item % k] as char);
            visit(&prefix);
            for_each_string(alphabet, l - 2, &mut |rest| visit(&format!("{}{}", prefix, rest)));
        }
        t
    });

    // J2: long numbers: 1..2000 digits with fractions and exponents around the limits
    let mut docs: Vec<String> = vec![];
    let dlens: &[usize] = if tier.is_thorough() { &[1, 2, 18, 19, 20, 21, 38, 39, 40, 100, 300, 1000, 2000, 5000] } else { &[1, 20, 300, 2000] };
    for &dl in dlens {
        let digits = filler_digits(run.seed(), dl as u64, dl);
        for int in [digits.clone(), format!("-{}", digits)] {
            for frac in ["".to_string(), ".5".to_string(), format!(".{}", &digits[..dl.min(300)]), ".000".to_string()] {
                for exp in ["", "e0", "E+5", "e-5", "e149999", "e150000", "e150001", "e-149999", "e-150000", "e-150001", "e150300", "e-150400", "e9223372036854775807", "e-9223372036854775808", "e9223372036854775808", "e99999999999999999999999", "e", "e+", "e1.5"] {
                    docs.push(format!("{}{}{}", int, frac, exp));
                }
            }
        }
    }
    for d in limit_spellings() {
        docs.push(format!("0.{}", d));
        docs.push(format!("-{}.{}", d, d));
        docs.push(format!("{}e-{}", d, d.len()));
    }
    docs.sort();
    docs.dedup();
    run.bound("J2_documents", docs.len());
    run.par("J2 long JSON numbers, exponents around the limits", docs.len(), |i| {
        let mut t = Tally::default();
        t.states += 1;
        for e in ENTRIES {
            t.transitions += 1;
            t.nontrivial += 1;
            if let Some(v) = check_doc(e, &docs[i]) {
                run.report(v);
            }
        }
        // the same numeral as a JSON string (numeric strings of any length)
        let quoted = format!("\"{}\"", docs[i]);
        for e in ["BigDecimal", "json_num"] {
            t.transitions += 1;
            if let Some(v) = check_doc(e, &quoted) {
                run.report(v);
            }
        }
        if i % 200 == 0 {
            run.sample(|| json!({"kind": "json", "entry": "json_num", "doc": if docs[i].len() > 60 { format!("{}…", &docs[i][..60]) } else { docs[i].clone() }}));
        }
        t
    });

    // J2b: zero-padded exponents (valid JSON numbers) and zero-padded digit fields (numeric strings) of every length
    let pad_max: usize = tier.pick(130, 600);
    run.bound("J2b_zero_padding", format!("0..={}", pad_max));
    run.par("J2b zero-padded exponents and digit fields", pad_max + 1, |z| {
        let mut t = Tally::default();
        let zs = "0".repeat(z);
        let docs: Vec<String> = vec![format!("7.25E+{}12", zs), format!("-1e-{}7", zs), format!("15e{}3", zs), format!("0.{}5", zs), format!("1.{}e{}2", zs, zs)];
        for d in docs {
            t.states += 1;
            for e in ENTRIES {
                t.transitions += 1;
                t.nontrivial += 1;
                if let Some(v) = check_doc(e, &d) {
                    run.report(v);
                }
            }
            let quoted = format!("\"{}\"", d);
            for e in ["BigDecimal", "json_num"] {
                t.transitions += 1;
                if let Some(v) = check_doc(e, &quoted) {
                    run.report(v);
                }
            }
            // numeric strings also allow leading zeros in the integer part
            let q2 = format!("\"{}{}\"", zs, d);
            t.transitions += 1;
            if let Some(v) = check_doc("BigDecimal", &q2) {
                run.report(v);
            }
        }
        t
    });

    // J3: malformed numeric strings: long numerals of several shapes with one character inserted at /
    // substituted for every position, from an alphabet of ASCII junk and 2-, 3- and 4-byte characters; through
    // the string-reading entries: an error, never a panic (no byte offset derived from the length may be used
    // to slice the text), and the numerals that stay valid must keep their exact value
    let junk: Vec<&str> = vec!["x", " ", "_", "-", ".", "e", "\u{0}", "é", "٣", "€", "😀"];
    let mut j3: Vec<String> = vec![];
    let j3lens: Vec<usize> = if tier.is_thorough() { (1..=200).chain([257, 300, 1000]).collect() } else { (1..=80).chain([95, 100, 128, 130, 257]).collect() };
    for &l in j3lens.iter() {
        let d: String = (0..l).map(|i| char::from(b'1' + (i % 9) as u8)).collect();
        j3.push(d.clone());
        j3.push(format!("-{}", d));
        j3.push(format!("{}.{}", &d[..l / 2], &d[l / 2..]));
        j3.push(format!("+{}e-7", d));
    }
    run.bound("J3_bases", j3.len());
    run.bound("J3_lengths", json!(j3lens));
    run.bound("J3_characters", json!(junk));
    run.par("J3 malformed long numeric strings", j3.len(), |bi| {
        let mut t = Tally::default();
        let base: Vec<char> = j3[bi].chars().collect();
        for pos in 0..=base.len() {
            for m in junk.iter() {
                for subst in [false, true] {
                    if subst && pos == base.len() {
                        continue;
                    }
                    let mut s = String::new();
                    for (i, c) in base.iter().enumerate() {
                        if i == pos {
                            s.push_str(m);
                            if subst {
                                continue;
                            }
                        }
                        s.push(*c);
                    }
                    if pos == base.len() {
                        s.push_str(m);
                    }
                    t.states += 1;
                    let quoted = serde_json::to_string(&s).unwrap();
                    for e in ["BigDecimal", "json_num"] {
                        t.transitions += 1;
                        t.nontrivial += 1;
                        if let Some(v) = check_doc(e, &quoted) {
                            run.report(v);
                        }
                    }
                    // the same text through a string token (any format's string deserializer)
                    t.transitions += 1;
                    let want = expected_parse(&s);
                    let got = guard(|| BigDecimal::deserialize(IntoDeserializer::<::serde::de::value::Error>::into_deserializer(s.as_str())));
                    let case = json!({"kind": "json", "entry": "BigDecimal", "doc": quoted});
                    match got {
                        Err(p) => run.report(Violation::new("serde string token", "panic", case, "a value or an error", p)),
                        Ok(r) => {
                            let g = r.ok().map(|b| dec(&b));
                            if g != want {
                                run.report(Violation::new("serde string token", "wrong_value", case, format!("{:?}", want.map(|d| d.show())), format!("{:?}", g.map(|d| d.show()))));
                            }
                        }
                    }
                }
            }
        }
        t
    });

    // T1: token streams of every integer and float width
    run.seq("T1 integer tokens", || {
        let mut t = Tally::default();
        int_tokens!(run, t, u8, u16, u32, u64, u128, i8, i16, i32, i64, i128);
        t
    });
    let ms: Vec<u64> = vec![0, 1, 2, 0x5555555555555, 0xfffffffffffff, 0x8000000000000, 0x123456789abcd];
    run.par("T2 float tokens (f64: all exponent fields x mantissas; f32 likewise)", 2048, |ef| {
        let mut t = Tally::default();
        for &m in ms.iter() {
            for sign in [0u64, 1] {
                t.states += 1;
                t.transitions += 1;
                t.nontrivial += 1;
                if let Some(v) = check_float_token_f64((sign << 63) | ((ef as u64) << 52) | m) {
                    run.report(v);
                }
            }
        }
        if ef < 256 {
            for &m in ms.iter() {
                for sign in [0u32, 1] {
                    t.states += 1;
                    t.transitions += 1;
                    if let Some(v) = check_float_token_f32((sign << 31) | ((ef as u32) << 23) | (m as u32 & 0x7fffff)) {
                        run.report(v);
                    }
                }
            }
        }
        t
    });
    // T3: histories through `Deserialize::deserialize_in_place` (the entry point serde uses to refill an existing
    // value): every token kind x values x every kind of previous occupant (scale 0 / positive / negative, zero with
    // a scale, long); the refilled decimal must be exactly what a fresh deserialisation yields
    let places: Vec<Dec> = vec![Dec::new(0, 0), Dec::new(7, 0), Dec::new(125, 2), Dec::new(3, -5), Dec::new(0, 4), Dec::new(-7, 30), Dec { n: pow10(45) + 1, s: 20 }, Dec::new(-1, -1)];
    let mut toks: Vec<(&str, String)> = vec![];
    macro_rules! int_vals {
        ($($ty:ty),*) => {$(
            for v in [<$ty>::MIN, <$ty>::MAX, 0 as $ty, 1 as $ty, 7 as $ty, (0 as $ty).wrapping_sub(1), <$ty>::MAX / 3] {
                toks.push((stringify!($ty), v.to_string()));
            }
        )*};
    }
    int_vals!(u8, u16, u32, u64, u128, i8, i16, i32, i64, i128);
    for v in ["0", "1.5", "-0.1", "1e300", "5e-324", "NaN", "inf"] {
        toks.push(("f64", v.to_string()));
        toks.push(("f32", v.to_string()));
    }
    for v in ["7", "12.50", "-1e3", "0.000", "1e-40", "abc", ""] {
        toks.push(("str", v.to_string()));
    }
    for v in ["7", "12.50", "-1e3", "0.000", "\"12.50\"", "\"-7e-3\"", "null", "[1]", "18446744073709551616", "1e400"] {
        toks.push(("json", v.to_string()));
    }
    toks.sort();
    toks.dedup();
    run.bound("T3_in_place", json!({"tokens": toks.len(), "previous_occupants": places.len()}));
    run.par("T3 deserialize_in_place over previous occupants", toks.len(), |i| {
        let mut t = Tally::default();
        let (ty, val) = (&toks[i].0, &toks[i].1);
        for pl in places.iter() {
            t.states += 1;
            t.transitions += 2;
            if pl.s != 0 {
                t.nontrivial += 1;
            }
            if let Some(v) = check_in_place(ty, val, pl) {
                run.report(v);
            }
        }
        t
    });
    // the whole exploration once more against the subject built WITH its `string-only` feature
    run.bound("build_variants", "std + serde-json (this process); std + serde-json + string-only (child process, same domain)");
    run.variant("string_only");
    let _ = BigInt::zero();
    // ... and against the subject built under a non-default compile-time configuration (mc/variants/cfg_alt/build.env)
    run.variant("cfg_alt");
    run.finish();
}
