//! C01 — addition, subtraction and multiplication are exact for every operand form.
use bigdecimal::{BigDecimal, BigDecimalRef};
use num_bigint::BigInt;
use num_traits::{One, Zero};
use props::alpha::*;
use props::conv::*;
use props::engine::*;
use serde_json::{json, Value};
use spec::*;

use props::shapes::*;
use props::{prim_shapes, sh};

/// value comparison of an observed result with the model's exact result (no string conversion)
fn same_value(r: &BigDecimal, want: &Dec) -> bool {
    let (rn, rs) = r.as_bigint_and_exponent();
    let rs = rs as i128;
    if rs == want.s {
        rn == want.n
    } else if rn.is_zero() || want.n.is_zero() {
        rn.is_zero() && want.n.is_zero()
    } else if rs > want.s {
        rn == &want.n * pow10((rs - want.s) as u64)
    } else {
        rn * pow10((want.s - rs) as u64) == want.n
    }
}

fn viol(kind: &str, shape: &str, a: &Dec, b: &str, want: &Dec, got: Result<BigDecimal, String>, gap: i128) -> Option<Violation> {
    let case = json!({"kind": kind, "shape": shape, "a": a.show(), "b": b});
    let site = format!("{} {}", kind, shape);
    match got {
        Err(p) => Some(Violation::new(&site, "panic", case, want.show(), p).attr("shape", shape).attr("gap", gap.to_string())),
        Ok(r) if !same_value(&r, want) => Some(Violation::new(&site, "wrong_value", case, want.show(), show(&r)).attr("shape", shape).attr("gap", gap.to_string())),
        _ => None,
    }
}

/// all decimal-decimal shapes and (when b has scale 0) all BigInt shapes for one ordered pair
fn check_pair(run: &Run, ds: &[Shape<F2>], is: &[Shape<FI>], xa: &BigDecimal, xb: &BigDecimal, a: &Dec, b: &Dec, t: &mut Tally) {
    let want = [a.add(b), a.sub(b), a.mul(b)];
    let gap = (a.s - b.s).abs();
    for s in ds {
        t.transitions += 1;
        let w = &want[s.op as usize];
        let got = guard(|| (s.f)(xa, xb));
        if let Some(v) = viol("dec", s.name, a, &b.show(), w, got, gap) {
            run.report(v);
        }
    }
    if b.s == 0 {
        let wsw = [b.add(a), b.sub(a), b.mul(a)];
        for s in is {
            t.transitions += 1;
            let w = if s.swapped { &wsw[s.op as usize] } else { &want[s.op as usize] };
            let got = guard(|| (s.f)(xa, &b.n));
            if let Some(v) = viol("bigint", s.name, a, &b.show(), w, got, a.s.abs()) {
                run.report(v);
            }
        }
    }
}

macro_rules! prim_domain {
    ($run:expr, $t:ty, $decs:expr, $xdecs:expr, $tally:expr, $only:expr) => {{
        let shapes = prim_shapes!($t);
        let mut vals: Vec<$t> = vec![0, 1, 2, 10, <$t>::MIN, <$t>::MIN + 1, <$t>::MAX - 1, <$t>::MAX, 100, 7];
        #[allow(unused_comparisons)]
        if <$t>::MIN < 0 {
            vals.extend([(0 as $t).wrapping_sub(1), (0 as $t).wrapping_sub(2), (0 as $t).wrapping_sub(10)]);
        }
        // every 10^k + d that fits the type (d up to +-32768): values a float-based or word-based shortcut takes for
        // a power of ten (alpha::near_powers_of_ten), both signs for the signed types
        for v in near_powers_of_ten(<$t>::BITS) {
            if let Ok(p) = <$t>::try_from(v.clone()) {
                vals.push(p);
            }
            if let Ok(p) = <$t>::try_from(-v) {
                vals.push(p);
            }
        }
        vals.sort();
        vals.dedup();
        for (a, xa) in $decs.iter().zip($xdecs.iter()) {
            for &p in vals.iter() {
                let b = Dec { n: BigInt::from(p), s: 0 };
                for s in shapes.iter() {
                    if let Some((name, pv)) = $only {
                        if s.name != name || b.n.to_string() != pv {
                            continue;
                        }
                    }
                    $tally.transitions += 1;
                    let want = if s.swapped { s.op.model(&b, a) } else { s.op.model(a, &b) };
                    let got = guard(|| (s.f)(xa, p));
                    let site = concat!("prim ", stringify!($t));
                    if let Some(mut v) = viol(site, s.name, a, &b.show(), &want, got, a.s.abs()) {
                        v.case["type"] = json!(stringify!($t));
                        $run.report(v);
                    }
                }
            }
        }
    }};
}

fn prim_operands() -> Vec<Dec> {
    let mut v = vec![];
    for n in [0i64, 1, -1, 2, 5, 10, -37, 100, 12345] {
        for s in [0i128, 1, -1, 3, -4, 25] {
            v.push(Dec::new(n, s));
        }
    }
    v.push(Dec { n: pow10(19) - 1, s: 0 });
    v.push(Dec { n: -(pow10(20) + 3i32), s: 2 });
    v.push(Dec { n: BigInt::from(i128::MAX), s: 0 });
    v.push(Dec { n: BigInt::from(i128::MIN), s: 0 });
    v.push(Dec { n: BigInt::from(u128::MAX), s: 1 });
    v.push(Dec { n: BigInt::from(i64::MIN), s: 0 });
    v
}

fn run_prims(run: &Run, type_name: &str, only: Option<(&str, String)>) -> Tally {
    let decs = prim_operands();
    let xdecs: Vec<BigDecimal> = decs.iter().map(bd).collect();
    let mut t = Tally::default();
    t.states += decs.len() as u64;
    let only = only.as_ref().map(|(a, b)| (*a, b.as_str()));
    match type_name {
        "u8" => prim_domain!(run, u8, decs, xdecs, t, only),
        "u16" => prim_domain!(run, u16, decs, xdecs, t, only),
        "u32" => prim_domain!(run, u32, decs, xdecs, t, only),
        "u64" => prim_domain!(run, u64, decs, xdecs, t, only),
        "u128" => prim_domain!(run, u128, decs, xdecs, t, only),
        "i8" => prim_domain!(run, i8, decs, xdecs, t, only),
        "i16" => prim_domain!(run, i16, decs, xdecs, t, only),
        "i32" => prim_domain!(run, i32, decs, xdecs, t, only),
        "i64" => prim_domain!(run, i64, decs, xdecs, t, only),
        "i128" => prim_domain!(run, i128, decs, xdecs, t, only),
        _ => panic!("unknown primitive type"),
    }
    t
}
const PRIMS: [&str; 10] = ["u8", "u16", "u32", "u64", "u128", "i8", "i16", "i32", "i64", "i128"];

// ---- unary / derived operations -------------------------------------------------------------------
const UNARY: [&str; 8] = ["double", "half", "square", "cube", "abs", "neg V", "neg R", "neg F"];
fn unary_model(op: &str, a: &Dec) -> Dec {
    match op {
        "double" => a.mul(&Dec::new(2, 0)),
        "half" => a.mul(&Dec::new(5, 1)),
        "square" => a.mul(a),
        "cube" => a.mul(a).mul(a),
        "abs" => Dec { n: num_traits::Signed::abs(&a.n), s: a.s },
        _ => a.neg(),
    }
}
fn unary_impl(op: &str, x: &BigDecimal) -> BigDecimal {
    match op {
        "double" => x.double(),
        "half" => x.half(),
        "square" => x.square(),
        "cube" => x.cube(),
        "abs" => x.abs(),
        "neg V" => -x.clone(),
        "neg R" => -x,
        "neg F" => (-x.to_ref()).to_owned(),
        _ => unreachable!(),
    }
}
fn check_unary(run: &Run, a: &Dec, t: &mut Tally) {
    let xa = bd(a);
    for op in UNARY {
        t.transitions += 1;
        let want = unary_model(op, a);
        let got = guard(|| unary_impl(op, &xa));
        if let Some(v) = viol("unary", op, a, "", &want, got, 0) {
            run.report(v);
        }
    }
}

fn check_sum(run: &Run, seq: &[&Dec], t: &mut Tally) {
    let xs: Vec<BigDecimal> = seq.iter().map(|d| bd(d)).collect();
    let mut want = Dec::new(0, 0);
    for d in seq {
        want = want.add(d);
    }
    let label = seq.iter().map(|d| d.show()).collect::<Vec<_>>().join(",");
    t.transitions += 2;
    let got = guard(|| xs.iter().cloned().sum::<BigDecimal>());
    if let Some(v) = viol("sum", "Sum<BigDecimal>", &Dec::new(0, 0), &label, &want, got, 0) {
        run.report(v);
    }
    let got = guard(|| xs.iter().sum::<BigDecimal>());
    if let Some(v) = viol("sum", "Sum<&BigDecimal>", &Dec::new(0, 0), &label, &want, got, 0) {
        run.report(v);
    }
}

fn replay(run: &Run, case: &Value) -> Vec<Violation> {
    let kind = case["kind"].as_str().unwrap();
    let shape = case["shape"].as_str().unwrap();
    let a = jd(&case["a"]);
    let mut out = vec![];
    let push = |v: Option<Violation>, out: &mut Vec<Violation>| {
        if let Some(v) = v {
            out.push(v)
        }
    };
    match kind {
        "dec" => {
            let b = jd(&case["b"]);
            let s = dec_shapes().into_iter().find(|s| s.name == shape).expect("unknown shape");
            let want = s.op.model(&a, &b);
            let (xa, xb) = (bd(&a), bd(&b));
            if let Some(h) = case.get("after") {
                // a recorded history: an earlier operation (other operands) on this thread first
                let (ha, hb) = (bd(&jd(&h["a"])), bd(&jd(&h["b"])));
                let hs = dec_shapes().into_iter().find(|s| s.name == h["shape"].as_str().unwrap()).expect("unknown shape");
                let _ = guard(|| (hs.f)(&ha, &hb));
            }
            push(
                viol("dec", s.name, &a, &b.show(), &want, guard(|| (s.f)(&xa, &xb)), (a.s - b.s).abs()).map(|mut v| {
                    if let (Some(h), Some(o)) = (case.get("after"), v.case.as_object_mut()) {
                        o.insert("after".into(), h.clone());
                    }
                    v
                }),
                &mut out,
            );
        }
        "bigint" => {
            let b = jd(&case["b"]);
            let s = int_shapes().into_iter().find(|s| s.name == shape).expect("unknown shape");
            let want = if s.swapped { s.op.model(&b, &a) } else { s.op.model(&a, &b) };
            let xa = bd(&a);
            push(viol("bigint", s.name, &a, &b.show(), &want, guard(|| (s.f)(&xa, &b.n)), a.s.abs()), &mut out);
        }
        "unary" => {
            let xa = bd(&a);
            push(viol("unary", shape, &a, "", &unary_model(shape, &a), guard(|| unary_impl(shape, &xa)), 0), &mut out);
        }
        "sum" => {
            let seq: Vec<Dec> = case["b"].as_str().unwrap().split(',').filter(|s| !s.is_empty()).map(|s| Dec::parse(s).unwrap()).collect();
            let refs: Vec<&Dec> = seq.iter().collect();
            // re-run through a scratch Run-less path: reuse check via a local collector
            let xs: Vec<BigDecimal> = refs.iter().map(|d| bd(d)).collect();
            let mut want = Dec::new(0, 0);
            for d in refs.iter() {
                want = want.add(d);
            }
            let label = case["b"].as_str().unwrap();
            if shape == "Sum<BigDecimal>" {
                push(viol("sum", shape, &Dec::new(0, 0), label, &want, guard(|| xs.iter().cloned().sum::<BigDecimal>()), 0), &mut out);
            } else {
                push(viol("sum", shape, &Dec::new(0, 0), label, &want, guard(|| xs.iter().sum::<BigDecimal>()), 0), &mut out);
            }
        }
        k if k.starts_with("prim ") => {
            // replays are produced by re-running the (tiny) primitive domain restricted to this shape/value
            let ty = case["type"].as_str().unwrap();
            let b = jd(&case["b"]);
            let _ = run_prims(run, ty, Some((shape, b.n.to_string())));
            // run_prims reports into `run`; the caller collects from there
        }
        _ => panic!("unknown case kind"),
    }
    out
}

fn main() {
    let (run, inv) = Run::start("C01");
    if let Invocation::Replay(f) = &inv {
        let case = f["case"].clone();
        if case["kind"].as_str().map(|k| k.starts_with("prim ")).unwrap_or(false) {
            // primitive cases are re-enumerated over their tiny domain and reported through the normal path
            let ty = case["type"].as_str().unwrap().to_string();
            let b = jd(&case["b"]);
            let shape = case["shape"].as_str().unwrap().to_string();
            let a = jd(&case["a"]);
            run.seq("replay", || {
                let t = run_prims(&run, &ty, Some((&shape, b.n.to_string())));
                let _ = a;
                t
            });
            run.finish();
        }
        run.replay(f, |c| replay(&run, c));
    }
    let tier = run.tier();
    let ds = dec_shapes();
    let is = int_shapes();
    run.bound("decimal_shapes", ds.len());
    run.bound("bigint_shapes", is.len());
    run.bound("primitive_shapes", "32 per type x 10 types");
    run.rule("every ordered operand pair of each sub-domain x every operator overload (30 decimal/ref shapes, 36 BigInt shapes, 320 primitive shapes) against exact integer arithmetic; non-trivial = the operand scales differ (an alignment is needed) or an operand is zero or value-one (a shortcut branch is taken); (pair, shape) combinations are distinct by construction");
    run.assume("num-bigint integer arithmetic is correct (shared with the subject)");
    run.assume("result scale is not constrained, only the value");

    // ---- S1: all ordered pairs over the small-scope operand set A -------------------------------
    let nmax: i64 = tier.pick(40, 250);
    run.bound("S1_unscaled", format!("[-{0},{0}] + {{+-99,+-100,+-101,+-999,+-1000}} at scales -3..=3, plus SPECIAL", nmax));
    let mut a_set: Vec<Dec> = small_decimals(nmax, -3, 3);
    for n in [99i64, 100, 101, 999, 1000] {
        if n > nmax {
            for s in -3..=3 {
                a_set.push(Dec::new(n, s));
                a_set.push(Dec::new(-n, s));
            }
        }
    }
    let two64: BigInt = BigInt::one() << 64usize;
    let special: Vec<Dec> = vec![
        Dec::new(0, 25),
        Dec::new(0, -25),
        Dec::new(10, 1),
        Dec::new(100, 2),
        Dec::new(1000, 3),
        Dec::new(-100, 2),
        Dec { n: pow10(25), s: 25 },
        Dec::new(1, -25),
        Dec::new(1, 25),
        Dec { n: pow10(18), s: 0 },
        Dec { n: pow10(18) + 1, s: 5 },
        Dec::new(i64::MAX, 0),
        Dec::new(i64::MIN, 2),
        Dec { n: pow10(19) - 1, s: 0 },
        Dec { n: pow10(19) + 1, s: -1 },
        Dec { n: &two64 - 1, s: 0 },
        Dec { n: &two64 + 1, s: 7 },
        Dec { n: -(&two64 + 1i32), s: 0 },
        Dec { n: pow10(30), s: 30 },
        Dec { n: pow10(600), s: 600 },
        Dec { n: pow10(40) - 1, s: 20 },
        Dec { n: -(pow10(40) - 1i32), s: 21 },
        Dec::new(125, 1),
        Dec::new(1250, 2),
        Dec::new(12500, 3),
    ];
    let n_small = a_set.len();
    a_set.extend(special);
    let xs: Vec<BigDecimal> = a_set.iter().map(bd).collect();
    run.par("S1 small-scope pairs x shapes", a_set.len(), |i| {
        let mut t = Tally::default();
        t.states += 1;
        for j in 0..a_set.len() {
            let (a, b) = (&a_set[i], &a_set[j]);
            let shortcut = a.n.is_zero() || b.n.is_zero() || a.eq_val(&Dec::new(1, 0)) || b.eq_val(&Dec::new(1, 0));
            if a.s != b.s || shortcut {
                t.nontrivial += (ds.len() + if b.s == 0 { is.len() } else { 0 }) as u64;
            }
            check_pair(&run, &ds, &is, &xs[i], &xs[j], a, b, &mut t);
        }
        if i % 101 == 7 {
            run.sample(|| json!({"kind": "dec", "shape": "R+R", "a": a_set[i].show(), "b": a_set[(i * 17) % n_small].show()}));
        }
        t
    });

    // ---- S2: primitive operands --------------------------------------------------------------
    run.par("S2 primitive overloads", PRIMS.len(), |i| {
        let t = run_prims(&run, PRIMS[i], None);
        run.sample(|| json!({"kind": format!("prim {}", PRIMS[i]), "shape": "T-R", "a": "-37e-3", "b": "1e0", "type": PRIMS[i]}));
        t
    });

    // ---- S3: scale-gap sweep ------------------------------------------------------------------
    let gs: Vec<u64> = if tier.is_thorough() { (0..=10000).collect() } else { gaps() };
    run.bound("S3_gaps", if tier.is_thorough() { json!("every gap 0..=10000") } else { json!(gs) });
    let filler23 = big(&filler_digits(run.seed(), 23, 23));
    let long_lens: &[usize] = tier.pick(&[40, 591][..], &[40, 100, 591, 3000][..]);
    let mut gap_ops: Vec<BigInt> = vec![BigInt::from(1), BigInt::from(-7), pow10(19) - 1, &two64 + 1, filler23];
    for l in long_lens {
        gap_ops.push(big(&filler_digits(run.seed(), *l as u64, *l)));
    }
    run.bound("S3_operands", json!(gap_ops.iter().map(|n| format!("{} digits", ndigits(n))).collect::<Vec<_>>()));
    run.par("S3 scale-gap sweep", gs.len(), |gi| {
        let g = gs[gi] as i128;
        let mut t = Tally::default();
        t.states += 1;
        for x in gap_ops.iter() {
            for y in gap_ops.iter() {
                for (sa, sb) in [(0i128, g), (g, 0), (-g, 0), (3, 3 - g)] {
                    let a = Dec { n: x.clone(), s: sa };
                    let b = Dec { n: y.clone(), s: sb };
                    let (xa, xb) = (bd(&a), bd(&b));
                    t.nontrivial += ds.len() as u64;
                    check_pair(&run, &ds, &is, &xa, &xb, &a, &b, &mut t);
                }
            }
        }
        run.sample(|| json!({"kind": "dec", "shape": "V-=R", "a": "1e0", "b": format!("-7e{}", -g)}));
        t
    });

    // ---- S9: histories of two operations whose scale gaps are RELATED: G1, then a gap derived from it the way
    // exponent recursions derive theirs (halves, quarters, sixteenths, tenths, square root, neighbours).  Each
    // operation alone is covered by S3; a helper that remembers anything about the previous power of ten is
    // decided by the pair.  Every G1 in the range; one fresh thread per G1, so a recorded pair replays.
    let g1max: usize = tier.pick(10_000, 40_000);
    run.bound("S9_gap_histories", json!({"first_gap": format!("every 0..={}", g1max), "second_gap": "G/2 G/4 G/8 G/10 G/16 G/32 G/100 G/256 isqrt(G) G-1 G+1 2G 16G (<= 20000)", "judged_overloads": if tier.is_thorough() { ds.len() } else { (ds.len() + 7) / 8 }}));
    run.par("S9 related-gap histories", g1max + 1, |g1| {
        let stride = if tier.is_thorough() { 1 } else { 8 };
        std::thread::scope(|sc| {
            sc.spawn(|| {
                let mut t = Tally::default();
                let g1 = g1 as i128;
                let mut g2s: Vec<i128> = vec![g1 / 2, g1 / 4, g1 / 8, g1 / 10, g1 / 16, g1 / 32, g1 / 100, g1 / 256, (g1 as f64).sqrt() as i128, g1 - 1, g1 + 1, 2 * g1, 16 * g1];
                g2s.retain(|&g| g >= 0 && g <= 20_000);
                g2s.sort();
                g2s.dedup();
                let arm = if g1 % 2 == 0 { "R+R" } else { "V-V" };
                let hs = ds.iter().find(|s| s.name == arm).expect("arming shape");
                let (ha, hb) = (Dec { n: BigInt::from(7), s: -(g1 / 2) }, Dec { n: BigInt::from(3), s: g1 - g1 / 2 });
                let (xha, xhb) = (bd(&ha), bd(&hb));
                for g2 in g2s {
                    t.states += 1;
                    for (sa, sb) in [(0i128, g2), (g2, 0)] {
                        let (a, b) = (Dec { n: BigInt::from(-7), s: sa }, Dec { n: BigInt::from(3), s: sb });
                        let (xa, xb) = (bd(&a), bd(&b));
                        for s in ds.iter().step_by(stride) {
                            let _ = guard(|| (hs.f)(&xha, &xhb));
                            t.transitions += 2;
                            t.nontrivial += 1;
                            let w = s.op.model(&a, &b);
                            if let Some(mut v) = viol("dec", s.name, &a, &b.show(), &w, guard(|| (s.f)(&xa, &xb)), g2) {
                                if let Some(o) = v.case.as_object_mut() {
                                    o.insert("after".into(), json!({"shape": arm, "a": ha.show(), "b": hb.show()}));
                                }
                                run.report(v.attr("history", true));
                            }
                        }
                    }
                }
                t
            })
            .join()
            .expect("S9 history thread")
        })
    });

    // ---- S6: structured operands (word limits, products with a power of ten crossing a word limit, digit
    // patterns at every length, carry chains, all-ones words) against a compact partner set, at scale gaps on
    // both sides of the u64 power-of-ten limit
    let st = structured_ints(tier.pick(60, 200), tier.pick(24, 60), run.seed());
    run.bound("S6_structured_integers", st.len());
    run.par("S6 structured operands", st.len(), |i| {
        let mut t = Tally::default();
        let x = &st[i];
        let partners: Vec<BigInt> = vec![BigInt::from(1), BigInt::from(-1), BigInt::from(7), pow10(19) - 1, &two64 + 1, x.clone(), -x.clone(), x + 1, -(x - 1i32)];
        for sign in [1, -1] {
            for y in partners.iter() {
                for (sa, sb) in [(0i128, 0i128), (0, 1), (2, 0), (0, 19), (20, 0), (3, -2)] {
                    let a = Dec { n: x * sign, s: sa };
                    let b = Dec { n: y.clone(), s: sb };
                    let (xa, xb) = (bd(&a), bd(&b));
                    t.states += 1;
                    t.nontrivial += ds.len() as u64;
                    check_pair(&run, &ds, &is, &xa, &xb, &a, &b, &mut t);
                }
            }
        }
        t
    });

    // ---- S7: limb patterns across a scale shift: b = ceil(L / 10^g) for every 64-bit limb pattern L over
    // {0, 1, 2^63, MAX-1, MAX} (3 limbs; 4 in the thorough tier), so that the SHIFTED operand b*10^g has those
    // limbs (all-ones / zero / single-bit words) above the lowest one; a = limb patterns over {0, 1, MAX} at the
    // finer scale: every carry / borrow chain across word boundaries of an aligned addition or subtraction
    let limb_vals: [u64; 5] = [0, 1, 1 << 63, u64::MAX - 1, u64::MAX];
    let nl: usize = tier.pick(3, 4);
    let mut lpat: Vec<BigInt> = vec![];
    for code in 0..5usize.pow(nl as u32) {
        let mut c = code;
        let mut v = BigInt::zero();
        let mut top = 0u64;
        for j in 0..nl {
            top = limb_vals[c % 5];
            v += BigInt::from(top) << (64 * j);
            c /= 5;
        }
        if top != 0 {
            lpat.push(v);
        }
    }
    let mut apat: Vec<BigInt> = vec![];
    for code in 1..27usize {
        let mut c = code;
        let mut v = BigInt::zero();
        for j in 0..3 {
            v += BigInt::from([0u64, 1, u64::MAX][c % 3]) << (64 * j);
            c /= 3;
        }
        apat.push(v);
    }
    let s7g: Vec<u64> = (1..=22).chain([38, 39]).collect();
    run.bound("S7_limb_patterns", lpat.len());
    run.bound("S7_gaps", json!(s7g));
    run.par("S7 limb patterns across a scale shift", lpat.len(), |i| {
        let mut t = Tally::default();
        for &g in s7g.iter() {
            let p = pow10(g);
            let b0 = (&lpat[i] + &p - 1) / &p;
            for a0 in apat.iter() {
                for (sa, sb) in [(1, 1), (-1, -1), (1, -1)] {
                    let a = Dec { n: a0 * sa, s: g as i128 };
                    let b = Dec { n: &b0 * sb, s: 0 };
                    let (xa, xb) = (bd(&a), bd(&b));
                    t.states += 1;
                    t.nontrivial += 2 * ds.len() as u64;
                    check_pair(&run, &ds, &is, &xa, &xb, &a, &b, &mut t);
                    check_pair(&run, &ds, &is, &xb, &xa, &b, &a, &mut t);
                }
            }
        }
        t
    });

    // ---- S8: 32-bit limb alphabet at the multiply/carry overflow boundaries of a word-wise scale-up: x built from
    // 1..3 limbs drawn from {0, 1, 2^31, MAX, W-1, W, W+1, (2^64 mod 10^k) +- 1, ...} with W = floor(2^64/10^k)
    // (and floor(2^32/10^k)), re-scaled by 10^k through every overload against a partner at scale k, k = 1..21
    let s8k: Vec<u64> = (1..=21).collect();
    run.bound("S8_gaps", json!(s8k));
    run.par("S8 limb-boundary alphabet across a scale-up", s8k.len(), |ki| {
        let k = s8k[ki];
        let mut t = Tally::default();
        let p = pow10(k);
        let two32 = BigInt::one() << 32usize;
        let mut words: Vec<u32> = vec![0, 1, 1 << 31, u32::MAX, u32::MAX - 1];
        for w in [&two64 / &p, &two32 / &p, (&two64 / &p) >> 32usize, (&two64 % &p), &two64 / &p % &two32, (&two64 % &p) % &two32] {
            for d in [-1i64, 0, 1] {
                let v = &w + d;
                if v >= BigInt::zero() && v < two32 {
                    words.push(v.to_string().parse().unwrap());
                }
            }
        }
        words.sort();
        words.dedup();
        let nw = words.len();
        let partners: Vec<Dec> = vec![Dec::new(0, k as i128), Dec::new(1, k as i128), Dec::new(-7, k as i128), Dec { n: &p - 1, s: k as i128 }];
        for len in 1..=3usize {
            for code in 0..nw.pow(len as u32) {
                let mut cc = code;
                let mut limbs: Vec<u32> = vec![];
                for _ in 0..len {
                    limbs.push(words[cc % nw]);
                    cc /= nw;
                }
                if *limbs.last().unwrap() == 0 {
                    continue;
                }
                let x = BigInt::from(num_bigint::BigUint::new(limbs));
                for sign in [1, -1] {
                    let a = Dec { n: &x * sign, s: 0 };
                    let xa = bd(&a);
                    for b in partners.iter() {
                        let xb = bd(b);
                        t.states += 1;
                        t.nontrivial += ds.len() as u64;
                        check_pair(&run, &ds, &is, &xa, &xb, &a, b, &mut t);
                    }
                }
            }
        }
        t
    });

    // ---- S5: operands m*2^a*5^b against the shortcut operands (one in several spellings, zero, two, ten) ----
    let ab: Vec<u32> = tier.pick(vec![0, 1, 2, 26, 27, 28, 53, 54, 55, 56, 63, 64, 65, 81, 82, 108, 109, 120], (0..=124).collect());
    let tf = two_five_ints(&ab, &ab, &[1, -3]);
    let shortcut_ops: Vec<Dec> = vec![Dec::new(1, 0), Dec::new(100, 2), Dec::new(-1, 0), Dec::new(0, 2), Dec::new(2, 0), Dec::new(10, 0), Dec::new(5, 1)];
    let sxs: Vec<BigDecimal> = shortcut_ops.iter().map(bd).collect();
    run.bound("S5_two_five_exponents", json!(ab));
    run.par("S5 m*2^a*5^b x shortcut operands", tf.len(), |i| {
        let mut t = Tally::default();
        for s in [0i128, 60] {
            let x = Dec { n: tf[i].2.clone(), s };
            let xb = bd(&x);
            t.states += 1;
            for (q, qb) in shortcut_ops.iter().zip(sxs.iter()) {
                t.nontrivial += 2 * ds.len() as u64;
                check_pair(&run, &ds, &is, &xb, qb, &x, q, &mut t);
                check_pair(&run, &ds, &is, qb, &xb, q, &x, &mut t);
            }
            check_unary(&run, &x, &mut t);
        }
        t
    });

    // ---- S5b: word-level perturbations of the shortcut values: one (10^s at scale s) and zero, with whole
    // 32/64-bit words added above or below: 10^s + j*2^(32w) at scale s must not be mistaken for one
    let mut pert: Vec<Dec> = vec![];
    for s in 0..=tier.pick(22i128, 40) {
        let one_repr = pow10(s as u64);
        for w in [1usize, 2, 3, 4] {
            for j in [1i64, 2, -1] {
                let v = &one_repr + (BigInt::from(j) << (32 * w));
                if v != one_repr {
                    pert.push(Dec { n: v.clone(), s });
                    pert.push(Dec { n: -v, s });
                }
            }
        }
        // and zero plus a high word only
        pert.push(Dec { n: BigInt::one() << 64usize, s });
        pert.push(Dec { n: BigInt::one() << 128usize, s });
    }
    let partners: Vec<Dec> = vec![Dec::new(7, 0), Dec::new(-3, 2), Dec::new(1, 0), Dec::new(100, 2), Dec::new(0, 1)];
    let pxs: Vec<BigDecimal> = partners.iter().map(bd).collect();
    run.bound("S5b_word_perturbed_shortcut_values", pert.len());
    run.par("S5b word-level perturbations of one and zero", pert.len(), |i| {
        let mut t = Tally::default();
        let xb = bd(&pert[i]);
        t.states += 1;
        for (q, qb) in partners.iter().zip(pxs.iter()) {
            t.nontrivial += 2 * ds.len() as u64;
            check_pair(&run, &ds, &is, &xb, qb, &pert[i], q, &mut t);
            check_pair(&run, &ds, &is, qb, &xb, q, &pert[i], &mut t);
        }
        check_unary(&run, &pert[i], &mut t);
        t
    });

    // ---- S4: derived unary operations and sums -------------------------------------------------
    let lens: &[usize] = if tier.is_thorough() { &LONG_LENS_THOROUGH } else { &LONG_LENS_QUICK };
    let mut un: Vec<Dec> = a_set.clone();
    for (_, n) in long_ints(lens, run.seed()) {
        for s in [0i128, -5, 17] {
            un.push(Dec { n: n.clone(), s });
            un.push(Dec { n: -n.clone(), s });
        }
    }
    // the structured library (word limits, word-crossing products, patterns at every length, carry chains,
    // all-ones words) through the unary operations as well
    for n in structured_ints(tier.pick(60, 200), tier.pick(24, 60), run.seed()) {
        un.push(Dec { n: n.clone(), s: 3 });
        un.push(Dec { n: -n, s: -2 });
    }
    run.par("S4 unary (double half square cube abs neg)", un.len(), |i| {
        let mut t = Tally::default();
        t.states += 1;
        t.nontrivial += 8;
        check_unary(&run, &un[i], &mut t);
        t
    });
    let mut pool: Vec<Dec> = vec![Dec::new(0, 0), Dec::new(0, 7), Dec::new(0, -7), Dec::new(1, 0), Dec::new(100, 2), Dec::new(-1, 0), Dec::new(5, 1), Dec::new(-125, 3), Dec::new(3, -2), Dec { n: pow10(19) + 1, s: 19 }, Dec { n: -pow10(20), s: 0 }, Dec::new(999, -25)];
    // summands of ONE scale whose coefficients sit at the machine-word limits (their running sums cross 2^63, 2^64)
    pool.extend([Dec::new(i64::MAX, 2), Dec::new(i64::MIN, 2), Dec::new(1i64 << 62, 2), Dec::new(6_000_000_000_000_000_000i64, 2), Dec { n: BigInt::from(u64::MAX), s: 2 }, Dec::new(1, 2)]);
    run.bound("S4_sum_pool", pool.len());
    run.par("S4 sums of sequences <= 3", pool.len() + 1, |i| {
        let mut t = Tally::default();
        if i == pool.len() {
            check_sum(&run, &[], &mut t);
            return t;
        }
        check_sum(&run, &[&pool[i]], &mut t);
        for j in 0..pool.len() {
            check_sum(&run, &[&pool[i], &pool[j]], &mut t);
            for k in 0..pool.len() {
                check_sum(&run, &[&pool[i], &pool[j], &pool[k]], &mut t);
                t.states += 1;
                t.nontrivial += 2;
            }
        }
        t
    });
    run.finish();
}
