//! C12 — reciprocal is accurate to the last requested digit and sign-symmetric.
use bigdecimal::BigDecimal;
use num_bigint::BigInt;
use num_traits::{One, Signed, Zero};
use props::alpha::*;
use props::conv::*;
use props::engine::*;
use serde_json::{json, Value};
use spec::*;
use std::cmp::Ordering;

fn case_json(x: &Dec, p: u64, m: Mode) -> Value {
    json!({"x": x.show(), "p": p, "mode": m.name()})
}

fn pow10_dec(e: i128) -> Dec {
    Dec { n: BigInt::one(), s: -e }
}

/// exponent of the leading digit of a non-zero decimal
fn lead_exp(d: &Dec) -> i128 {
    ndigits(&d.n) as i128 - 1 - d.s
}

/// judge r against 1/x at precision p
fn judge(x: &Dec, r: &Dec, p: u64) -> Result<(), (&'static str, String)> {
    if r.n.is_zero() || (r.n.is_negative() != x.n.is_negative()) {
        return Err(("wrong_sign", format!("non-zero with the sign of x")));
    }
    let ax = Dec { n: x.n.abs(), s: x.s };
    let ar = Dec { n: r.n.abs(), s: r.s };
    let one = Dec::new(1, 0);
    // exact when 1/x has at most p significant digits
    let prod = ar.mul(&ax);
    let exact = prod.eq_val(&one);
    if let Some(k) = terminating_digits(&BigInt::one(), &ax.n) {
        if k <= p && !exact {
            return Err(("inexact_though_representable", format!("exactly 1/x ({} significant digits)", k)));
        }
    }
    if exact {
        return Ok(());
    }
    // |r - 1/x| < unit  <=>  |r*x - 1| < unit*|x|
    // leading exponent of 1/x: -(lead_exp(x)) - 1, or -lead_exp(x) when x is a power of ten (then exact, handled above)
    let e_true = -lead_exp(&ax) - 1;
    let e = e_true.max(lead_exp(&ar));
    let unit = pow10_dec(e - p as i128 + 1);
    let err = prod.sub(&one);
    let err = Dec { n: err.n.abs(), s: err.s };
    let bound = unit.mul(&ax);
    if cmp_val(&err.n, err.s, &bound.n, bound.s) != Ordering::Less {
        return Err(("off_by_unit", format!("|result - 1/x| < 1e{}", e - p as i128 + 1)));
    }
    Ok(())
}

fn check(xb: &BigDecimal, x: &Dec, p: u64, m: Mode) -> Vec<Violation> {
    let mut out = vec![];
    let mk = |class: &str, exp: String, obs: String| {
        Violation::new("inverse_with_context", class, case_json(x, p, m), exp, obs).attr("mode", m.name()).attr("p", p).attr("negative", x.n.is_negative()).attr("digits", ndigits(&x.n))
    };
    let c = ctx(p, m);
    let r = match guard(|| xb.inverse_with_context(&c)) {
        Err(e) => {
            out.push(mk("panic", "a reciprocal".into(), e));
            return out;
        }
        Ok(r) => dec(&r),
    };
    if let Err((class, exp)) = judge(x, &r, p) {
        out.push(mk(class, exp, r.show()));
    }
    // negation commutes under the mirrored mode
    let nx = bd(&x.neg());
    let cm = ctx(p, m.mirror());
    match guard(|| nx.inverse_with_context(&cm)) {
        Err(e) => out.push(mk("panic", "a reciprocal (negated input)".into(), e)),
        Ok(r2) => {
            let r2 = dec(&r2).neg();
            if !r2.eq_val(&r) {
                out.push(mk("not_sign_symmetric", format!("inverse(-x, {}) = -inverse(x, {}) = {}", m.mirror().name(), m.name(), r.neg().show()), r2.neg().show()));
            }
        }
    }
    out
}

fn sweep(run: &Run, x: &Dec, ps: &[u64], t: &mut Tally) {
    let xb = bd(x);
    t.states += 1;
    for &p in ps {
        for m in MODES {
            t.transitions += 2;
            t.nontrivial += 1;
            for v in check(&xb, x, p, m) {
                run.report(v);
            }
        }
    }
}

fn default_p() -> u64 {
    option_env!("RUST_BIGDECIMAL_DEFAULT_PRECISION").unwrap_or("100").parse().unwrap()
}

/// `1 / x` through primitive numerators must satisfy the reciprocal contract at the default precision
fn check_one_over(run: &Run, x: &Dec, t: &mut Tally) {
    let xb = bd(x);
    let want = match guard(|| xb.inverse()) {
        Ok(w) => w,
        Err(e) => {
            run.report(Violation::new("inverse", "panic", json!({"x": x.show(), "form": "inverse()"}), "a reciprocal", e));
            return;
        }
    };
    macro_rules! forms {
        ($($t:ty),*) => {{
            let mut v: Vec<(String, Result<BigDecimal, String>)> = vec![];
            $(
                v.push((format!("1{} / V", stringify!($t)), guard(|| (1 as $t) / xb.clone())));
                v.push((format!("1{} / R", stringify!($t)), guard(|| (1 as $t) / &xb)));
                v.push((format!("&1{} / V", stringify!($t)), guard(|| &(1 as $t) / xb.clone())));
                v.push((format!("&1{} / R", stringify!($t)), guard(|| &(1 as $t) / &xb)));
            )*
            v
        }};
    }
    let p = default_p();
    for (name, got) in forms!(u8, u16, u32, u64, u128, i8, i16, i32, i64, i128, f32, f64) {
        t.transitions += 1;
        let case = json!({"x": x.show(), "form": name});
        match got {
            Err(e) => run.report(Violation::new("one_over", "panic", case, show(&want), e)),
            Ok(r) => {
                // `1 / x` may be computed by inverse() or by a division: either way it must meet the
                // reciprocal's accuracy contract (it is NOT required to equal inverse() digit for digit)
                if let Err((class, exp)) = judge(x, &dec(&r), p) {
                    run.report(Violation::new("one_over", class, case, exp, show(&r)));
                }
            }
        }
    }
}

fn replay(run: &Run, case: &Value) -> Vec<Violation> {
    let x = jd(&case["x"]);
    if case.get("form").is_some() {
        let mut t = Tally::default();
        check_one_over(run, &x, &mut t);
        return vec![];
    }
    if let Some(a) = case.get("after") {
        let first = (a["p"].as_u64().unwrap(), Mode::from_name(a["mode"].as_str().unwrap()).unwrap());
        return check_after(&bd(&x), &x, first, (case["p"].as_u64().unwrap(), Mode::from_name(case["mode"].as_str().unwrap()).unwrap()));
    }
    check(&bd(&x), &x, case["p"].as_u64().unwrap(), Mode::from_name(case["mode"].as_str().unwrap()).unwrap())
}

/// one call preceded by another call on the same operand (same thread): the function is pure, so the second
/// result must be what the model says whatever came first; a violation records the history
fn check_after(xb: &BigDecimal, x: &Dec, first: (u64, Mode), second: (u64, Mode)) -> Vec<Violation> {
    let c1 = ctx(first.0, first.1);
    let _ = guard(|| xb.inverse_with_context(&c1));
    check(xb, x, second.0, second.1)
        .into_iter()
        .map(|mut v| {
            if let Some(o) = v.case.as_object_mut() {
                o.insert("after".into(), json!({"p": first.0, "mode": first.1.name()}));
            }
            v.attr("history", true)
        })
        .collect()
}

fn main() {
    let (run, inv) = Run::start("C12");
    if let Invocation::Replay(f) = &inv {
        if f["case"].get("form").is_some() {
            let x = jd(&f["case"]["x"]);
            run.seq("replay", || {
                let mut t = Tally::default();
                check_one_over(&run, &x, &mut t);
                t
            });
            run.finish();
        }
        run.replay(f, |c| replay(&run, c));
    }
    let tier = run.tier();
    run.rule("every (x, precision, mode) of each sub-domain through inverse_with_context, judged by exact cross-multiplication: sign, |r*x - 1| < unit*|x| (unit of the p-th digit of 1/x, or of the result when larger), exact when 1/x terminates within p digits, and inverse(-x) under the mirrored mode equals -inverse(x); every call runs under a 60 s watchdog (termination); every distinct (x, p, mode) is a non-trivial case; cases distinct by construction");
    run.assume("the lenient reading of 'one unit' at a decade boundary: the larger of the unit of the true value and of the result");

    // S1 small-scope grid
    let nmax: usize = tier.pick(3000, 300_000);
    let pmax: u64 = 8;
    run.bound("S1_unscaled", format!("2..={}", nmax));
    run.bound("S1_scales", "-3, 0, 2, 7");
    run.bound("S1_precisions", format!("1..={}", pmax));
    let ps: Vec<u64> = (1..=pmax).collect();
    run.par_opts("S1 small-scope grid", nmax - 1, 60, &|i| json!({"x": Dec::new(i as i64 + 2, -3).show(), "p": 1, "mode": "Up", "item": "this integer at scales -3, 0, 2, 7, every precision and mode"}), |i| {
        let n = i as i64 + 2;
        let mut t = Tally::default();
        for s in [-3i128, 0, 2, 7] {
            let x = Dec::new(n, s);
            sweep(&run, &x, &ps, &mut t);
            if n % 10 == 0 {
                sweep(&run, &x, &[100], &mut t);
            }
            if n % 500 == 3 {
                check_one_over(&run, &x, &mut t);
                check_one_over(&run, &x.neg(), &mut t);
            }
        }
        if i % 499 == 0 {
            run.sample(|| case_json(&Dec::new(n, 2), 2, Mode::Floor));
        }
        t
    });

    // S1b precision sweep: every p in 9..=150 on a small operand set
    let pmax_sweep: u64 = tier.pick(60, 150);
    let nsweep: usize = tier.pick(100, 300);
    run.bound("S1b_precisions", format!("9..={}", pmax_sweep));
    let psweep: Vec<u64> = (9..=pmax_sweep).collect();
    run.par_opts("S1b precision sweep", nsweep, 60, &|i| json!({"x": Dec::new(i as i64 + 2, 0).show(), "p": 9, "mode": "Up", "item": "this integer at scales 0, 3, -2, precisions 9.."}), |i| {
        let mut t = Tally::default();
        for s in [0i128, 3, -2] {
            sweep(&run, &Dec::new(i as i64 + 2, s), &psweep, &mut t);
        }
        t
    });

    // S2: terminating reciprocals 2^i 5^j at and just above their exact length
    let (imax, jmax): (u32, u32) = (tier.pick(66, 130), tier.pick(66, 130));
    run.bound("S2", format!("2^i 5^j, i<={}, j<={}", imax, jmax));
    run.par_opts("S2 terminating 2^i 5^j", (imax + 1) as usize, 60, &|i| json!({"x": Dec { n: BigInt::one() << i, s: 0 }.show(), "p": 1, "mode": "Up", "item": "2^i * 5^j for every j"}), |i| {
        let mut t = Tally::default();
        let mut d = BigInt::one() << i;
        for _j in 0..=jmax {
            let k = terminating_digits(&BigInt::one(), &d).unwrap();
            let mut ps: Vec<u64> = vec![1, 2, 3, 4, 5, k.saturating_sub(1).max(1), k, k + 1];
            ps.sort();
            ps.dedup();
            for s in [0i128, 3] {
                sweep(&run, &Dec { n: d.clone(), s }, &ps, &mut t);
            }
            d *= 5;
        }
        t
    });

    // S3: x = 99..9, 10..01, 10..0 of lengths 1..40; 2^b +- 1 for the bit-length alphabet x scales
    let mut s3: Vec<Dec> = vec![];
    for l in 1..=40usize {
        for (_, d) in patterns(l, run.seed()) {
            s3.push(Dec { n: big(&d), s: 0 });
            s3.push(Dec { n: big(&d), s: l as i128 });
        }
    }
    let mut bits: Vec<usize> = (1..=70).collect();
    bits.extend(1020..=1030);
    bits.extend(1070..=1080);
    bits.extend([2000, 5000]);
    for b in bits {
        for d in [-1i64, 0, 1] {
            let n = (BigInt::one() << b) + d;
            if n <= BigInt::one() {
                continue;
            }
            let scales: &[i128] = if b > 70 { &[0, 300, -300, 2000, -2000] } else { &[0, 300, -2000] };
            for &s in scales {
                s3.push(Dec { n: n.clone(), s });
            }
        }
    }
    let s3p: Vec<u64> = tier.pick(vec![1, 2, 3, 5, 17], vec![1, 2, 3, 4, 5, 17, 50, 100, 150]);
    run.bound("S3_precisions", json!(s3p));
    run.par_opts("S3 near powers of ten, bit-length alphabet", s3.len(), 60, &|i| json!({"x": s3[i].show(), "p": 1, "mode": "Up"}), |i| {
        let mut t = Tally::default();
        sweep(&run, &s3[i], &s3p, &mut t);
        t
    });

    // S4: long operands
    let lens: Vec<usize> = tier.pick(vec![19, 20, 40, 100, 101, 102, 103, 300, 330], vec![19, 20, 40, 100, 101, 102, 103, 300, 308, 309, 330, 590, 1500]);
    let mut s4: Vec<Dec> = vec![];
    for (_, n) in long_ints(&lens, run.seed()) {
        for s in [0i128, 17, -2000, 2000] {
            s4.push(Dec { n: n.clone(), s });
        }
    }
    // (the statement says 'for every precision from 1 upwards': a few precisions beyond the f64 exponent range too)
    let s4p: Vec<u64> = tier.pick(vec![1, 3, 100, 310, 400], vec![1, 2, 3, 5, 50, 100, 150, 307, 308, 309, 320, 400, 1000]);
    run.bound("S4_lengths", json!(lens));
    run.bound("S4_precisions", json!(s4p));
    run.par_opts("S4 long operands", s4.len(), 60, &|i| json!({"x": s4[i].show(), "p": 1, "mode": "Up"}), |i| {
        let mut t = Tally::default();
        sweep(&run, &s4[i], &s4p, &mut t);
        if i % 9 == 0 {
            check_one_over(&run, &s4[i], &mut t);
        }
        t
    });
    // S4b: every operand length: the digit patterns (all nines, 10..0, 10..01, 49..9, 50..0, 50..01, 19..9, 9..98,
    // filler) at every length, so that any relation between the length and a chunk size of a digit- or
    // word-wise reduction of the divisor (19 digits per u64, 9 per u32, 64 bits, ...) is met
    let lmax: usize = tier.pick(260, 700);
    let all_lens: Vec<usize> = (1..=lmax).collect();
    let s4b: Vec<Dec> = long_ints(&all_lens, run.seed()).into_iter().flat_map(|(_, n)| [Dec { n: n.clone(), s: 0 }, Dec { n, s: 17 }]).collect();
    let s4bp: Vec<u64> = tier.pick(vec![2, 16, 100], vec![1, 2, 16, 38, 100, 101]);
    run.bound("S4b_lengths", format!("1..={}", lmax));
    run.bound("S4b_precisions", json!(s4bp));
    run.par_opts("S4b patterns at every length", s4b.len(), 60, &|i| json!({"x": s4b[i].show(), "p": 1, "mode": "Up"}), |i| {
        let mut t = Tally::default();
        sweep(&run, &s4b[i], &s4bp, &mut t);
        t
    });
    // S6: call histories of length two on each operand (every ordered pair of (precision, mode) settings from a
    // small set, and the descending chain of precisions under each mode)
    let hx: Vec<Dec> = vec![Dec::new(3, 0), Dec::new(7, 0), Dec::new(-3, 1), Dec::new(11, 2), Dec::new(6, 0), Dec::new(13, -1), Dec::new(17, 0), Dec::new(9, 0), Dec::new(99, 0), Dec::new(101, 0), Dec::new(12345, 3), Dec { n: pow10(19) + 7, s: 0 }];
    let hp: Vec<u64> = tier.pick(vec![1, 2, 3, 5, 17, 18], vec![1, 2, 3, 4, 5, 8, 16, 17, 18, 19, 34]);
    run.bound("S6_history_operands", hx.len());
    run.bound("S6_history_precisions", json!(hp));
    run.par("S6 call histories of length two", hx.len(), |i| {
        let mut t = Tally::default();
        let x = &hx[i];
        let xb = bd(x);
        t.states += 1;
        for &p1 in hp.iter() {
            for m1 in MODES {
                for &p2 in hp.iter() {
                    for m2 in MODES {
                        t.transitions += 3;
                        t.nontrivial += 1;
                        for v in check_after(&xb, x, (p1, m1), (p2, m2)) {
                            run.report(v);
                        }
                    }
                }
            }
        }
        for m in MODES {
            for p in (1..tier.pick(40u64, 100)).rev() {
                t.transitions += 3;
                t.nontrivial += 1;
                for v in check_after(&xb, x, (p + 1, m), (p, m)) {
                    run.report(v);
                }
            }
        }
        t
    });
    // S5: structured operands (word limits, word-crossing products, carry chains, all-ones words; the patterns
    // at every length are S4b) x scales x written-out trailing zeros
    let st = structured_ints(1, tier.pick(24, 60), run.seed());
    let s5p: Vec<u64> = tier.pick(vec![1, 16, 19, 38, 100], vec![1, 2, 9, 16, 18, 19, 20, 37, 38, 39, 77, 100, 101]);
    run.bound("S5_structured_integers", st.len());
    run.bound("S5_precisions", json!(s5p));
    run.par_opts("S5 structured operands", st.len(), 60, &|i| json!({"x": st[i].to_string()}), |i| {
        let mut t = Tally::default();
        for x in structured_decimals(&st[i..=i], &[0, 5, -5], &[0, 1, 12]) {
            sweep(&run, &x, &s5p, &mut t);
        }
        t
    });
    // S5b: the word-level part of the library (word limits 2^e + d, floor(2^e/10^k) + d, 2^n - 1, 2^n, 2^n + 1) at
    // EVERY precision 1..=40: two algorithms that are each within one unit need not round alike, so the
    // sign-symmetry clause is exercised at every precision on both sides of every word limit
    let wl5 = structured_ints(1, 0, run.seed());
    let s5bp: Vec<u64> = tier.pick((1..=40).collect(), (1..=101).collect());
    run.bound("S5b_word_level_integers", wl5.len());
    run.bound("S5b_precisions", format!("1..={}", s5bp.len()));
    run.par_opts("S5b word-level operands x every precision", wl5.len(), 60, &|i| json!({"x": wl5[i].to_string()}), |i| {
        let mut t = Tally::default();
        for x in structured_decimals(&wl5[i..=i], &[0, 5], &[0]) {
            sweep(&run, &x, &s5bp, &mut t);
        }
        t
    });
    let _ = BigInt::zero();
    // the whole exploration once more against the subject built WITHOUT its `std` feature (the first Newton guess comes from libm::exp2 instead of f64::exp2)
    run.bound("build_variants", "std (this process) + no_std (child process, same domain)");
    run.variant("no_std");
    // ... and against the subject built under a non-default compile-time configuration (mc/variants/cfg_alt/build.env)
    run.variant("cfg_alt");
    run.finish();
}
