//! C19 — programs of exact operations give exact results whatever the intermediate forms.
//!
//! Explicit-state exploration (level-synchronous parallel BFS): a state is the complete representation
//! (int_val, scale) of the REAL accumulator; every transition rebuilds the accumulator from the state and
//! calls one real operator overload; identical representations are merged exactly (the pair is the whole
//! state, so equal pairs have equal futures; no fingerprints); the invariant (result = exact value,
//! comparisons and hashes against the pool agree with the exact values) is evaluated on every transition.
//! (A stateright BFS of the same model was built first; it ran at 3.7 us per transition without scaling
//! beyond ~1.5 cores in this sandbox, so the search loop was moved onto the engine's worker pool.)
use bigdecimal::{BigDecimal, BigDecimalRef};
use num_bigint::BigInt;
use num_traits::{Signed, Zero};
use props::alpha::*;
use props::conv::*;
use props::engine::*;
use props::shapes::*;
use props::{prim_shapes, sh};
use serde_json::{json, Value};
use spec::*;
use std::cmp::Ordering;
use std::hash::{Hash, Hasher};
use std::sync::atomic::{AtomicU64, Ordering::Relaxed};
use std::collections::{HashMap, HashSet};
use std::sync::{Arc, Mutex};

#[derive(Clone, Debug, PartialEq, Eq, Hash)]
enum Act {
    /// decimal-decimal overload `shape` with pool operand `pool`
    Dec { shape: u8, pool: u8 },
    /// BigInt overload with integer operand `val`
    Int { shape: u8, val: u8 },
    /// primitive overload: type index, shape, value index
    Prim { ty: u8, shape: u8, val: u8 },
    Unary(u8),
    SumWith { form: u8, pool: u8 },
}

const UNARY: [&str; 14] = ["neg V", "neg R", "neg F", "abs", "double", "half", "square", "normalized", "with_scale(+1)", "with_scale(+20)", "to_ref().to_owned()", "clone", "with_scale(+10)", "with_scale(+19)"];
const PRIM_TYPES: [&str; 3] = ["u8", "i64", "i128"];
const PRIM_VALS: [i64; 5] = [0, 1, 2, 7, 10];

struct M {
    pool: Vec<(Dec, BigDecimal)>,
    ds: Vec<Shape<F2>>,
    is: Vec<Shape<FI>>,
    ints: Vec<BigInt>,
    p_u8: Vec<Shape<fn(&BigDecimal, u8) -> BigDecimal>>,
    p_i64: Vec<Shape<fn(&BigDecimal, i64) -> BigDecimal>>,
    p_i128: Vec<Shape<fn(&BigDecimal, i128) -> BigDecimal>>,
    max_digits: u64,
    max_scale: i64,
    pruned: Arc<AtomicU64>,
}

fn hash_of(x: &BigDecimal) -> u64 {
    let mut h = std::collections::hash_map::DefaultHasher::new();
    x.hash(&mut h);
    h.finish()
}

impl M {
    fn new(pool: Vec<Dec>, max_digits: u64) -> M {
        M {
            pool: pool.into_iter().map(|d| (d.clone(), bd(&d))).collect(),
            ds: dec_shapes(),
            is: int_shapes(),
            ints: vec![BigInt::from(0), BigInt::from(1), BigInt::from(-1), BigInt::from(7), BigInt::from(10), pow10(19) + 1],
            p_u8: prim_shapes!(u8),
            p_i64: prim_shapes!(i64),
            p_i128: prim_shapes!(i128),
            max_digits,
            max_scale: 700,
            pruned: Arc::new(AtomicU64::new(0)),
        }
    }

    fn describe(&self, a: &Act) -> String {
        match a {
            Act::Dec { shape, pool } => format!("{} {}", self.ds[*shape as usize].name, self.pool[*pool as usize].0.show()),
            Act::Int { shape, val } => format!("{} bigint {}", self.is[*shape as usize].name, self.ints[*val as usize]),
            Act::Prim { ty, shape, val } => format!("{} {} {}", self.p_u8[*shape as usize].name, PRIM_TYPES[*ty as usize], PRIM_VALS[*val as usize]),
            Act::Unary(u) => UNARY[*u as usize].to_string(),
            Act::SumWith { form, pool } => format!("sum{} {}", form, self.pool[*pool as usize].0.show()),
        }
    }

    /// run one real operation on the accumulator; returns (observed, exact expected value)
    fn apply(&self, acc: &BigDecimal, cur: &Dec, a: &Act) -> (Result<BigDecimal, String>, Dec) {
        match a {
            Act::Dec { shape, pool } => {
                let s = &self.ds[*shape as usize];
                let (q, qb) = &self.pool[*pool as usize];
                (guard(|| (s.f)(acc, qb)), s.op.model(cur, q))
            }
            Act::Int { shape, val } => {
                let s = &self.is[*shape as usize];
                let i = &self.ints[*val as usize];
                let q = Dec { n: i.clone(), s: 0 };
                let want = if s.swapped { s.op.model(&q, cur) } else { s.op.model(cur, &q) };
                (guard(|| (s.f)(acc, i)), want)
            }
            Act::Prim { ty, shape, val } => {
                let v = PRIM_VALS[*val as usize];
                let q = Dec::new(v, 0);
                let (op, swapped, got) = match ty {
                    0 => {
                        let s = &self.p_u8[*shape as usize];
                        (s.op, s.swapped, guard(|| (s.f)(acc, v as u8)))
                    }
                    1 => {
                        let s = &self.p_i64[*shape as usize];
                        (s.op, s.swapped, guard(|| (s.f)(acc, -v)))
                    }
                    _ => {
                        let s = &self.p_i128[*shape as usize];
                        (s.op, s.swapped, guard(|| (s.f)(acc, v as i128)))
                    }
                };
                let q = if *ty == 1 { q.neg() } else { q };
                let want = if swapped { op.model(&q, cur) } else { op.model(cur, &q) };
                (got, want)
            }
            Act::Unary(u) => {
                let name = UNARY[*u as usize];
                let got = guard(|| match name {
                    "neg V" => -acc.clone(),
                    "neg R" => -acc,
                    "neg F" => (-acc.to_ref()).to_owned(),
                    "abs" => acc.abs(),
                    "double" => acc.double(),
                    "half" => acc.half(),
                    "square" => acc.square(),
                    "normalized" => acc.normalized(),
                    "with_scale(+1)" => acc.with_scale(acc.fractional_digit_count() + 1),
                    "with_scale(+20)" => acc.with_scale(acc.fractional_digit_count() + 20),
                    "with_scale(+10)" => acc.with_scale(acc.fractional_digit_count() + 10),
                    "with_scale(+19)" => acc.with_scale(acc.fractional_digit_count() + 19),
                    "to_ref().to_owned()" => acc.to_ref().to_owned(),
                    _ => acc.clone(),
                });
                let want = match name {
                    "neg V" | "neg R" | "neg F" => cur.neg(),
                    "abs" => Dec { n: cur.n.abs(), s: cur.s },
                    "double" => cur.mul(&Dec::new(2, 0)),
                    "half" => cur.mul(&Dec::new(5, 1)),
                    "square" => cur.mul(cur),
                    _ => cur.clone(),
                };
                (got, want)
            }
            Act::SumWith { form, pool } => {
                let (q, qb) = &self.pool[*pool as usize];
                let got = guard(|| match form {
                    0 => vec![acc.clone(), qb.clone()].into_iter().sum::<BigDecimal>(),
                    1 => [acc, qb].iter().copied().sum::<BigDecimal>(),
                    _ => vec![qb.clone(), acc.clone(), BigDecimal::from(0)].into_iter().sum::<BigDecimal>(),
                });
                (got, cur.add(q))
            }
        }
    }

    /// the invariant on a reached representation: comparisons and hashes against every pool element
    fn observe_ok(&self, r: &BigDecimal, val: &Dec) -> Result<(), String> {
        for (q, qb) in self.pool.iter() {
            let want = cmp_val(&val.n, val.s, &q.n, q.s);
            let got = guard(|| (r == qb, r.cmp(qb), r.to_ref() == qb.to_ref(), hash_of(r) == hash_of(qb)));
            match got {
                Err(p) => return Err(format!("comparison with {} panicked: {}", q.show(), p)),
                Ok((eq, c, eqr, heq)) => {
                    if c != want || eq != (want == Ordering::Equal) || eqr != eq {
                        return Err(format!("comparison with {}: cmp={:?} eq={} ref_eq={} but exact order is {:?}", q.show(), c, eq, eqr, want));
                    }
                    if want == Ordering::Equal && !heq {
                        return Err(format!("hash differs from that of the equal value {}", q.show()));
                    }
                }
            }
        }
        Ok(())
    }

    /// one transition; Err = invariant violated (message)
    fn step(&self, st_n: &BigInt, st_s: i64, a: &Act) -> Result<Option<(BigInt, i64)>, (String, String)> {
        let acc = BigDecimal::new(st_n.clone(), st_s);
        let cur = Dec { n: st_n.clone(), s: st_s as i128 };
        let (got, want) = self.apply(&acc, &cur, a);
        let r = match got {
            Err(p) => return Err((want.show(), format!("panic: {}", p))),
            Ok(r) => r,
        };
        let rd = dec(&r);
        if !rd.eq_val(&want) {
            return Err((want.show(), rd.show()));
        }
        // results beyond the expansion bound are still observed (only their successors are not explored)
        if let Err(m) = self.observe_ok(&r, &want) {
            return Err((format!("comparisons/hashes of {} agree with its exact value", rd.show()), m));
        }
        if ndigits(&rd.n) > self.max_digits || rd.s.abs() > self.max_scale as i128 {
            self.pruned.fetch_add(1, Relaxed);
            return Ok(None);
        }
        Ok(Some((rd.n, rd.s as i64)))
    }


    /// one spelling per distinct implementation path (the compound forms, the by-reference forms and the
    /// reversed-operand forms), a 3-element integer set and the unary operations
    fn core_actions(&self) -> Vec<Act> {
        let mut out = vec![];
        let keep_dec = ["V+V", "R+R", "F+V", "V+=R", "V-V", "R-R", "F-V", "V-=R", "V*V", "R*R", "V*=R"];
        for (i, sh) in self.ds.iter().enumerate() {
            if keep_dec.contains(&sh.name) {
                for p in 0..self.pool.len() {
                    out.push(Act::Dec { shape: i as u8, pool: p as u8 });
                }
            }
        }
        let keep_int = ["V+I", "&I-V", "I*V", "V*=&I"];
        for (i, sh) in self.is.iter().enumerate() {
            if keep_int.contains(&sh.name) {
                for v in [1usize, 3] {
                    out.push(Act::Int { shape: i as u8, val: v as u8 });
                }
            }
        }
        let keep_prim = ["V+=T", "T-R", "V*T"];
        for (i, sh) in self.p_u8.iter().enumerate() {
            if keep_prim.contains(&sh.name) {
                for v in [0usize, 3] {
                    out.push(Act::Prim { ty: 1, shape: i as u8, val: v as u8 });
                }
            }
        }
        for u in 0..UNARY.len() {
            out.push(Act::Unary(u as u8));
        }
        out
    }

    fn all_actions(&self) -> Vec<Act> {
        let mut out = vec![];
        for sh in 0..self.ds.len() {
            for p in 0..self.pool.len() {
                out.push(Act::Dec { shape: sh as u8, pool: p as u8 });
            }
        }
        for sh in 0..self.is.len() {
            for v in 0..self.ints.len() {
                out.push(Act::Int { shape: sh as u8, val: v as u8 });
            }
        }
        for ty in 0..PRIM_TYPES.len() {
            for sh in 0..self.p_u8.len() {
                for v in 0..PRIM_VALS.len() {
                    out.push(Act::Prim { ty: ty as u8, shape: sh as u8, val: v as u8 });
                }
            }
        }
        for u in 0..UNARY.len() {
            out.push(Act::Unary(u as u8));
        }
        for f in 0..3 {
            for p in 0..self.pool.len() {
                out.push(Act::SumWith { form: f, pool: p as u8 });
            }
        }
        out
    }
}


type Key = (BigInt, i64);

/// Level-synchronous BFS.  Returns per level (number of new states, order-independent digest).
fn bfs(run: &Run, m: &M, name: &str, actions: &[Act], depth: usize) -> Vec<(usize, u64)> {
    let mut visited: HashSet<Key> = HashSet::new();
    let mut parent: HashMap<Key, (Key, u32)> = HashMap::new();
    let mut frontier: Vec<Key> = vec![];
    for (d, _) in m.pool.iter() {
        let k = (d.n.clone(), d.s as i64);
        if visited.insert(k.clone()) {
            frontier.push(k);
        }
    }
    let digest = |ks: &[Key]| -> u64 {
        ks.iter().fold(0u64, |acc, k| {
            let mut h = std::collections::hash_map::DefaultHasher::new();
            k.hash(&mut h);
            acc.wrapping_add(h.finish())
        })
    };
    let mut levels = vec![(frontier.len(), digest(&frontier))];
    for level in 1..=depth {
        if frontier.is_empty() || run.over_budget() {
            break;
        }
        // shard the frontier; each item expands a block of states with every action
        let block = if frontier.len() < 4096 { 2usize } else { 64usize };
        let nitems = (frontier.len() + block - 1) / block;
        let found: Mutex<Vec<(Key, Key, u32)>> = Mutex::new(vec![]);
        let fr = &frontier;
        let vis = &visited;
        let par_ref = &parent;
        let last = level == depth;
        run.par(&format!("{} level {}", name, level), nitems, |i| {
            let mut t = Tally::default();
            let mut local: HashMap<Key, (Key, u32)> = HashMap::new();
            for st in fr[i * block..((i + 1) * block).min(fr.len())].iter() {
                t.states += 1;
                for (ai, a) in actions.iter().enumerate() {
                    t.transitions += 1;
                    match m.step(&st.0, st.1, a) {
                        Ok(Some(k)) => {
                            // results of the last level are checked (value, comparisons, hashes) but not expanded,
                            // so they need not be stored
                            if !last && !vis.contains(&k) && !local.contains_key(&k) {
                                local.insert(k, (st.clone(), ai as u32));
                            }
                        }
                        Ok(None) => {}
                        Err((want, got)) => {
                            // reconstruct the program that reaches this accumulator
                            let mut path: Vec<String> = vec![m.describe(a)];
                            let mut cur = st.clone();
                            while let Some((p, pa)) = par_ref.get(&cur) {
                                path.push(m.describe(&actions[*pa as usize]));
                                cur = p.clone();
                            }
                            path.reverse();
                            let init = Dec { n: cur.0.clone(), s: cur.1 as i128 };
                            let case = json!({"acc": init.show(), "path": path, "failing_step_from": Dec { n: st.0.clone(), s: st.1 as i128 }.show()});
                            run.report(Violation::new("program of exact operations", "wrong_value", case, want, got).attr("action", m.describe(a)).attr("depth", level as u64));
                        }
                    }
                }
            }
            t.fold(&local.len());
            let mut g = found.lock().unwrap();
            g.extend(local.into_iter().map(|(k, (p, a))| (k, p, a)));
            t
        });
        let mut next: Vec<Key> = vec![];
        let mut found = found.into_inner().unwrap();
        // deterministic merge order
        found.sort();
        for (k, p, a) in found {
            if visited.insert(k.clone()) {
                parent.insert(k.clone(), (p, a));
                next.push(k);
            }
        }
        levels.push((next.len(), digest(&next)));
        let newly = next.len() as u64;
        run.seq(&format!("{} level {} merge", name, level), || Tally { states: 0, transitions: 0, nontrivial: newly, digest: 0 });
        eprintln!("[C19] {} level {}: {} new states, {} total", name, level, next.len(), visited.len());
        frontier = next;
    }
    levels
}

fn pool(tier: Tier) -> Vec<Dec> {
    let mut p = vec![Dec::new(0, 0), Dec::new(0, 3), Dec::new(0, -3), Dec::new(1, 0), Dec::new(100, 2), Dec::new(-1, 0), Dec::new(2, 0), Dec::new(10, 0), Dec::new(1, 1), Dec::new(1, -3), Dec::new(125, 1), Dec::new(-725, 2)];
    // operands whose scale gaps against the rest of the pool sit on the re-scaling decision constants
    // (19/20/21 for the u64 power of ten, 256+ for a narrowed gap)
    p.push(Dec::new(3, 21));
    p.push(Dec::new(7, 259));
    p.push(Dec::new(0, 262));
    // a gap at which the comparison's bit-length estimate is tight (10^643 lies just below a power of two)
    p.push(Dec::new(0, 643));
    if tier.is_thorough() {
        p.push(Dec { n: pow10(19) + 1, s: 0 });
        p.push(Dec::new(5, 1));
    }
    p
}

fn far_operands(tier: Tier) -> Vec<Dec> {
    let mut far_pool: Vec<Dec> = vec![Dec::new(0, 0), Dec::new(1, 0), Dec::new(-725, 2), Dec::new(0, 9441), Dec::new(1, 9441), Dec::new(1, -9439)];
    // limb-boundary operands of the word-wise scaled comparison (W_k * (2^32 + 1), W_k = floor(2^64 / 10^k)) for the
    // gaps k = 10 and 19; their twins arise through with_scale(+10) / with_scale(+19) and are compared with them
    far_pool.push(Dec { n: (BigInt::from(1u64 << 32) + 1) * BigInt::from(1844674407u64), s: 0 });
    far_pool.push(Dec::new(4294967297i64, 0));
    if tier.is_thorough() {
        far_pool.extend([Dec::new(125, 1), Dec::new(7, 4096), Dec::new(-3, 10233), Dec::new(0, -20000)]);
    }
    far_pool
}

fn deep_operands() -> Vec<Dec> {
    vec![Dec::new(1, 5), Dec { n: big("12345677654321"), s: 7 }, Dec::new(-3, 0)]
}

/// W1: one primitive operand of a wide type at a structured value (alpha::near_powers_of_ten, type limits) through
/// overload `shape` on the accumulator; returns None when the value does not fit the type
fn wide_prim(m: &M, acc: &Dec, ty: &str, shape: usize, v: &BigInt) -> Option<Result<(), (String, String)>> {
    use num_traits::ToPrimitive;
    let accb = bd(acc);
    let q = Dec { n: v.clone(), s: 0 };
    macro_rules! go {
        ($t:ty, $conv:ident) => {{
            let shapes = prim_shapes!($t);
            let sh = &shapes[shape];
            let pv: $t = v.$conv()?;
            let want = if sh.swapped { sh.op.model(&q, acc) } else { sh.op.model(acc, &q) };
            (guard(|| (sh.f)(&accb, pv)), want)
        }};
    }
    let (got, want) = match ty {
        "u64" => go!(u64, to_u64),
        "i64" => go!(i64, to_i64),
        "u128" => go!(u128, to_u128),
        _ => go!(i128, to_i128),
    };
    Some(match got {
        Err(p) => Err((want.show(), format!("panic: {}", p))),
        Ok(r) => {
            let rd = dec(&r);
            if !rd.eq_val(&want) {
                Err((want.show(), rd.show()))
            } else if let Err(e) = m.observe_ok(&r, &want) {
                Err((format!("comparisons/hashes of {} agree with its exact value", rd.show()), e))
            } else {
                Ok(())
            }
        }
    })
}
const WIDE_TYPES: [(&str, u32); 4] = [("u64", 64), ("i64", 63), ("u128", 128), ("i128", 127)];

fn replay(m: &M, case: &Value) -> Vec<Violation> {
    // a recorded step: rebuild the accumulator and apply the named action without any explorer;
    // a recorded path: apply the listed actions one after another from the initial operand
    let find = |name: &str| m.all_actions().into_iter().find(|a| m.describe(a) == name).unwrap_or_else(|| panic!("unknown action {}", name));
    if let Some(w) = case.get("wide_prim") {
        let acc = jd(&case["acc"]);
        let shape = m.p_i64.iter().position(|s| s.name == w["shape"].as_str().unwrap()).expect("shape");
        let v = big(w["value"].as_str().unwrap());
        return match wide_prim(m, &acc, w["ty"].as_str().unwrap(), shape, &v) {
            Some(Err((want, got))) => vec![Violation::new("wide primitive operand", "wrong_value", case.clone(), want, got)],
            _ => vec![],
        };
    }
    let mut out = vec![];
    let mut cur = jd(&case["acc"]);
    let acts: Vec<String> = match case.get("path") {
        Some(p) => p.as_array().unwrap().iter().map(|x| x.as_str().unwrap().to_string()).collect(),
        None => vec![case["action"].as_str().unwrap().to_string()],
    };
    for name in acts {
        let a = find(&name);
        match m.step(&cur.n, cur.s as i64, &a) {
            Ok(Some((n, s))) => cur = Dec { n, s: s as i128 },
            Ok(None) => break,
            Err((want, got)) => {
                out.push(Violation::new("program step", "wrong_value", json!({"acc": cur.show(), "action": name}), want, got));
                break;
            }
        }
    }
    out
}

fn main() {
    let (run, inv) = Run::start("C19");
    let tier = run.tier();
    if let Invocation::Replay(f) = &inv {
        // one model holding every operand of the three searches, so that any recorded action name resolves
        let mut all: Vec<Dec> = pool(Tier::Thorough);
        all.extend(far_operands(Tier::Thorough));
        all.extend(deep_operands());
        let mut uniq: Vec<Dec> = vec![];
        for d in all {
            if !uniq.contains(&d) {
                uniq.push(d);
            }
        }
        let mut m = M::new(uniq, 1_000_000);
        m.max_scale = i64::MAX;
        run.replay(f, |c| replay(&m, c));
    }
    let m = M::new(pool(tier), 40);
    let full = m.all_actions();
    let core = m.core_actions();
    let depth_full: usize = std::env::var("VERIF_C19_DEPTH_FULL").ok().and_then(|s| s.parse().ok()).unwrap_or(tier.pick(3, 4));
    let depth_core: usize = std::env::var("VERIF_C19_DEPTH_CORE").ok().and_then(|s| s.parse().ok()).unwrap_or(tier.pick(4, 5));
    run.bound("program_depth_full_alphabet", depth_full);
    run.bound("program_depth_core_alphabet", depth_core);
    run.bound("pool", json!(m.pool.iter().map(|p| p.0.show()).collect::<Vec<_>>()));
    run.bound("actions_full_alphabet", full.len());
    run.bound("actions_core_alphabet", core.len());
    run.bound("prune", "results with more than 40 digits or |scale| > 700 are checked and observed but not expanded (counted)");
    run.rule("explicit-state BFS over accumulator representations (int_val, scale): initial states = the operand pool; FULL alphabet = every decimal overload (30) x pool, every BigInt overload (36) x 6 integers, 32 primitive overloads x {u8,i64,i128} x 5 values, 14 unary/clone/re-scale operations, 3 sum forms x pool; CORE alphabet = one spelling per distinct implementation path; every transition runs the real overload on the accumulator rebuilt from the state pair and checks value, comparisons and hashes against the exact value; states merged exactly on the pair; non-trivial = distinct reachable representations beyond the initial ones");
    run.assume("same representation => same futures (the pair is the complete state of a BigDecimal), so merging is sound and each state is expanded at its minimal depth, i.e. with the largest remaining budget");

    let r1 = bfs(&run, &m, "BFS full alphabet", &full, depth_full);
    let r2 = bfs(&run, &m, "BFS core alphabet", &core, depth_core);
    // far-scale operands: a second, small pool whose scale gaps lie far beyond the first pool's (on both sides of
    // 590*16 = 9440 where the power-of-ten helper recurses twice, at 4096, and beyond 10000), explored to depth 2
    // with the core alphabet; results are checked, observed and expanded whatever their size
    let far_pool: Vec<Dec> = far_operands(tier);
    let mut m2 = M::new(far_pool, 30_000);
    m2.max_scale = 40_000;
    let core2 = m2.core_actions();
    run.bound("far_pool", json!(m2.pool.iter().map(|p| p.0.show()).collect::<Vec<_>>()));
    run.bound("far_pool_depth_core_alphabet", 2);
    let r3 = bfs(&run, &m2, "BFS far-scale operands", &core2, 2);
    run.extra("level_sizes_far_scale", json!(r3.iter().map(|x| x.0).collect::<Vec<_>>()));
    // deep, narrow programs: few actions, many steps - squaring doubles the scale at every step, so a short
    // alphabet reaches scale gaps of tens of thousands only through a HISTORY (1e-5 squared twelve times is
    // 1e-20480), which no single operand of the other searches carries; nothing is pruned below 45000 digits
    let deep_pool: Vec<Dec> = deep_operands();
    let mut m3 = M::new(deep_pool, 45_000);
    m3.max_scale = 90_000;
    let deep_names = ["square", "V+V 12345677654321e-7", "R-R -3e0"];
    let deep: Vec<Act> = m3.all_actions().into_iter().filter(|a| deep_names.contains(&m3.describe(a).as_str())).collect();
    assert_eq!(deep.len(), deep_names.len(), "deep alphabet names must match");
    let deep_depth: usize = tier.pick(10, 13);
    run.bound("deep_alphabet", json!(deep_names));
    run.bound("deep_depth", deep_depth);
    let r4 = bfs(&run, &m3, "BFS deep narrow alphabet", &deep, deep_depth);
    run.extra("level_sizes_deep_narrow", json!(r4.iter().map(|x| x.0).collect::<Vec<_>>()));
    // W1: depth-one layer with a WIDE primitive alphabet: every primitive overload x {u64, i64, u128, i128} x every
    // 10^k + d that fits the type (d up to +-32768: values a float-based shortcut takes for a power of ten), the
    // type limits, both signs for the signed types, on every pool accumulator
    let wide_acc: Vec<Dec> = m.pool.iter().map(|p| p.0.clone()).collect();
    let nshapes = m.p_i64.len();
    run.bound("W1_wide_primitives", json!({"accumulators": wide_acc.len(), "overloads": nshapes, "types": ["u64", "i64", "u128", "i128"], "values": "10^k + d, d in {0, +-1, +-2, +-3, +-16, +-17, 32, +-256, +-2048, +-32768}, every k within the type; type limits"}));
    run.par("W1 wide primitive operands at depth one", wide_acc.len() * nshapes, |i| {
        let mut t = Tally::default();
        let (acc, shape) = (&wide_acc[i / nshapes], i % nshapes);
        for (ty, bits) in WIDE_TYPES {
            let mut vals = near_powers_of_ten(bits);
            vals.push((BigInt::from(1) << bits) - 1);
            vals.push((BigInt::from(1) << bits) - 2);
            if ty.starts_with('i') {
                let neg: Vec<BigInt> = vals.iter().map(|v| -v).collect();
                vals.extend(neg);
                vals.push(-(BigInt::from(1) << bits));
            }
            for v in vals.iter() {
                match wide_prim(&m, acc, ty, shape, v) {
                    None => {}
                    Some(r) => {
                        t.states += 1;
                        t.transitions += 1;
                        t.nontrivial += 1;
                        if let Err((want, got)) = r {
                            run.report(Violation::new("wide primitive operand", "wrong_value", json!({"acc": acc.show(), "wide_prim": {"ty": ty, "shape": m.p_i64[shape].name, "value": v.to_string()}}), want, got).attr("overload", m.p_i64[shape].name));
                        }
                    }
                }
            }
        }
        t
    });
    // determinism: re-explore the full-alphabet graph to one level less and compare level sizes and digests
    let r1b = bfs(&run, &m, "BFS full alphabet (determinism re-run)", &full, depth_full.saturating_sub(1).max(1));
    // (the last level of a run is checked but not stored, so it is excluded from the comparison)
    if r1b.iter().take(r1b.len().saturating_sub(1)).zip(r1.iter()).any(|(a, b)| a != b) {
        run.machinery_error(format!("nondeterministic exploration: {:?} vs {:?}", r1b, r1));
    }
    run.extra("level_sizes_full_alphabet", json!(r1.iter().map(|x| x.0).collect::<Vec<_>>()));
    run.extra("level_sizes_core_alphabet", json!(r2.iter().map(|x| x.0).collect::<Vec<_>>()));
    run.extra("pruned_results", m.pruned.load(Relaxed));
    run.sample(|| json!({"acc": "0e-3", "path": ["V+=T u8 7"]}));
    run.sample(|| json!({"acc": "100e-2", "path": ["V*V 125e-1", "normalized", "F-V 0e3"]}));
    let _ = BigInt::zero();
    let _: Option<BigDecimalRef> = None;
    run.finish();
}
