//! C14 — binary floats convert to decimals exactly and come back unchanged.
use bigdecimal::{BigDecimal, FromPrimitive, ToPrimitive};
use num_bigint::BigInt;
use num_traits::{One, Signed, Zero};
use props::alpha::*;
use props::conv::*;
use props::engine::*;
use serde_json::{json, Value};
use spec::float::*;
use spec::*;
use std::cmp::Ordering;
use std::convert::TryFrom;

/// model-built tables 5^k and 10^k (k <= 1100), by repeated multiplication
struct Tables {
    p5: Vec<BigInt>,
    p10: Vec<BigInt>,
}
impl Tables {
    fn new() -> Tables {
        let mut p5 = vec![BigInt::one()];
        let mut p10 = vec![BigInt::one()];
        for k in 1..=1100 {
            p5.push(&p5[k - 1] * 5);
            p10.push(&p10[k - 1] * 10);
        }
        assert_eq!(p10[1100], pow10(1100));
        Tables { p5, p10 }
    }
    /// is (n, s) exactly (-1)^neg * m * 2^e ?
    fn same(&self, n: &BigInt, s: i64, neg: bool, m: u64, e: i32) -> bool {
        if m == 0 {
            return n.is_zero();
        }
        if n.is_negative() != neg || n.is_zero() {
            return false;
        }
        let a = n.abs();
        if e >= 0 {
            // integer m * 2^e ; subject value a * 10^-s
            let v = BigInt::from(m) << e as usize;
            if s >= 0 {
                s <= 1100 && a == v * &self.p10[s as usize]
            } else {
                -s <= 1100 && a * &self.p10[(-s) as usize] == v
            }
        } else {
            let k = (-e) as usize; // value = m * 5^k * 10^-k
            let v = BigInt::from(m) * &self.p5[k];
            let s = s as i128;
            if s <= k as i128 && k as i128 - s <= 1100 {
                a * &self.p10[(k as i128 - s) as usize] == v
            } else if s > k as i128 && s - k as i128 <= 1100 {
                a == v * &self.p10[(s - k as i128) as usize]
            } else {
                false
            }
        }
    }
}

fn fviol(site: &str, class: &str, ty: &str, bits: u64, exp: String, obs: String) -> Violation {
    Violation::new(site, class, json!({"kind": "from_float", "type": ty, "bits": format!("{:#x}", bits)}), exp, obs).attr("type", ty).attr("exp_field", if ty == "f32" { (bits >> 23) & 0xff } else { (bits >> 52) & 0x7ff })
}

/// one f32 bit pattern through try_from (and from_f32 on request), and back through to_f64
fn check_f32(tb: &Tables, bits: u32, full: bool) -> Option<Violation> {
    let f = f32::from_bits(bits);
    let model = decode_f32(bits);
    let got = guard(|| BigDecimal::try_from(f));
    match (&model, got) {
        (_, Err(p)) => Some(fviol("TryFrom<f32>", "panic", "f32", bits as u64, "no panic".into(), p)),
        (Fl::Nan, Ok(Ok(x))) | (Fl::Inf { .. }, Ok(Ok(x))) => Some(fviol("TryFrom<f32>", "accepted", "f32", bits as u64, "an error".into(), show(&x))),
        (Fl::Nan, Ok(Err(_))) | (Fl::Inf { .. }, Ok(Err(_))) => {
            if full && BigDecimal::from_f32(f).is_some() {
                return Some(fviol("FromPrimitive::from_f32", "accepted", "f32", bits as u64, "None".into(), "Some".into()));
            }
            None
        }
        (Fl::Finite { .. }, Ok(Err(e))) => Some(fviol("TryFrom<f32>", "rejected", "f32", bits as u64, "the exact binary value".into(), format!("{}", e))),
        (Fl::Finite { neg, m, e }, Ok(Ok(x))) => {
            let (n, s) = x.as_bigint_and_exponent();
            if !tb.same(&n, s, *neg, *m, *e) {
                return Some(fviol("TryFrom<f32>", "wrong_value", "f32", bits as u64, exact_value(&model).unwrap().show(), format!("{}e{}", n, -s)));
            }
            // back: identical float (-0.0 comes back as 0.0)
            let want = if *m == 0 { 0.0f64 } else { f as f64 };
            match guard(|| x.to_f64()) {
                Ok(Some(b)) if b.to_bits() == want.to_bits() => {}
                Ok(b) => return Some(fviol("to_f64(decimal of f32)", "wrong_value", "f32", bits as u64, format!("{:e}", want), format!("{:?}", b))),
                Err(p) => return Some(fviol("to_f64(decimal of f32)", "panic", "f32", bits as u64, format!("{:e}", want), p)),
            }
            if full {
                match guard(|| (BigDecimal::from_f32(f), x.to_ref().to_f64(), x.to_f32())) {
                    Ok((Some(y), Some(b), Some(c))) if y == x && b.to_bits() == want.to_bits() && c.to_bits() == (want as f32).to_bits() => {}
                    other => return Some(fviol("from_f32 / ref to_f64 / to_f32", "wrong_value", "f32", bits as u64, "same as TryFrom / identical float".into(), format!("{:?}", other.map(|t| (t.0.map(|y| show(&y)), t.1, t.2))))),
                }
            }
            None
        }
    }
}

fn check_f64(tb: &Tables, bits: u64, full: bool) -> Option<Violation> {
    let f = f64::from_bits(bits);
    let model = decode_f64(bits);
    let got = guard(|| BigDecimal::try_from(f));
    match (&model, got) {
        (_, Err(p)) => Some(fviol("TryFrom<f64>", "panic", "f64", bits, "no panic".into(), p)),
        (Fl::Nan, Ok(Ok(x))) | (Fl::Inf { .. }, Ok(Ok(x))) => Some(fviol("TryFrom<f64>", "accepted", "f64", bits, "an error".into(), show(&x))),
        (Fl::Nan, Ok(Err(_))) | (Fl::Inf { .. }, Ok(Err(_))) => {
            if full && BigDecimal::from_f64(f).is_some() {
                return Some(fviol("FromPrimitive::from_f64", "accepted", "f64", bits, "None".into(), "Some".into()));
            }
            None
        }
        (Fl::Finite { .. }, Ok(Err(e))) => Some(fviol("TryFrom<f64>", "rejected", "f64", bits, "the exact binary value".into(), format!("{}", e))),
        (Fl::Finite { neg, m, e }, Ok(Ok(x))) => {
            let (n, s) = x.as_bigint_and_exponent();
            if !tb.same(&n, s, *neg, *m, *e) {
                return Some(fviol("TryFrom<f64>", "wrong_value", "f64", bits, exact_value(&model).unwrap().show(), format!("{}e{}", n, -s)));
            }
            let want = if *m == 0 { 0.0f64 } else { f };
            match guard(|| x.to_f64()) {
                Ok(Some(b)) if b.to_bits() == want.to_bits() => {}
                Ok(b) => return Some(fviol("to_f64(decimal of f64)", "wrong_value", "f64", bits, format!("{:e}", want), format!("{:?}", b))),
                Err(p) => return Some(fviol("to_f64(decimal of f64)", "panic", "f64", bits, format!("{:e}", want), p)),
            }
            if full {
                match guard(|| (BigDecimal::from_f64(f), x.to_ref().to_f64())) {
                    Ok((Some(y), Some(b))) if y == x && b.to_bits() == want.to_bits() => {}
                    other => return Some(fviol("from_f64 / ref to_f64", "wrong_value", "f64", bits, "same as TryFrom / identical float".into(), format!("{:?}", other.map(|t| (t.0.map(|y| show(&y)), t.1))))),
                }
            }
            None
        }
    }
}

struct Limits {
    min_normal: Dec,
    max: Dec,
    sub_step: Dec,
    two48: BigInt,
}
impl Limits {
    fn new() -> Limits {
        Limits {
            min_normal: exact_value(&decode_f64(f64::MIN_POSITIVE.to_bits())).unwrap(),
            max: Dec { n: f64_max(), s: 0 },
            sub_step: exact_value(&decode_f64(1)).unwrap(),
            two48: BigInt::one() << 48usize,
        }
    }
}

/// arbitrary decimal -> f64 within the property's tolerance
fn check_to_f64(lim: &Limits, x: &Dec, via_ref: bool) -> Option<Violation> {
    let xb = bd(x);
    let case = json!({"kind": "to_f64", "x": x.show(), "via_ref": via_ref});
    let mk = |class: &str, exp: String, obs: String| Violation::new("to_f64", class, case.clone(), exp, obs).attr("scale", x.s.to_string()).attr("digits", ndigits(&x.n));
    let f = match guard(|| if via_ref { xb.to_ref().to_f64() } else { xb.to_f64() }) {
        Err(p) => return Some(mk("panic", "a float".into(), p)),
        Ok(None) => return Some(mk("wrong_value", "Some(float)".into(), "None".into())),
        Ok(Some(f)) => f,
    };
    let av = Dec { n: x.n.abs(), s: x.s };
    let neg = x.n.is_negative();
    if f.is_nan() {
        return Some(mk("wrong_value", "a number".into(), "NaN".into()));
    }
    if f != 0.0 && !x.n.is_zero() && (f < 0.0) != neg {
        return Some(mk("wrong_sign", format!("sign of {}", x.show()), format!("{:e}", f)));
    }
    if x.n.is_zero() {
        return if f == 0.0 { None } else { Some(mk("wrong_value", "0".into(), format!("{:e}", f))) };
    }
    // far outside the f64 range the verdict needs no alignment (and the model must not build 10^(2^40))
    let e10 = ndigits(&av.n) as i128 - 1 - av.s;
    if e10 > 400 {
        return if f.is_infinite() { None } else { Some(mk("wrong_value", "an infinity (|v| > 1e400)".into(), format!("{:e}", f))) };
    }
    if e10 < -400 {
        return if f == 0.0 || f.abs().to_bits() == 1 { None } else { Some(mk("inaccurate", "within 2^-1074 of a value below 1e-400".into(), format!("{:e}", f))) };
    }
    let above_max = cmp_val(&av.n, av.s, &lim.max.n, lim.max.s) == Ordering::Greater;
    if f.is_infinite() {
        // allowed only beyond, or within tolerance of, the largest finite f64: |v| >= MAX*(1 - 2^-48)
        // <=> |v| * 2^48 >= MAX * (2^48 - 1)
        let lhs = Dec { n: &av.n * &lim.two48, s: av.s };
        let rhs = Dec { n: &lim.max.n * (&lim.two48 - 1), s: 0 };
        return if cmp_val(&lhs.n, lhs.s, &rhs.n, rhs.s) != Ordering::Less { None } else { Some(mk("wrong_value", "a finite float".into(), format!("{:e}", f))) };
    }
    let fv = exact_value(&decode_f64(f.abs().to_bits())).unwrap();
    let diff = fv.sub(&av);
    let adiff = Dec { n: diff.n.abs(), s: diff.s };
    let below_normal = cmp_val(&av.n, av.s, &lim.min_normal.n, lim.min_normal.s) == Ordering::Less;
    if below_normal {
        // within one subnormal step (possibly zero)
        if cmp_val(&adiff.n, adiff.s, &lim.sub_step.n, lim.sub_step.s) == Ordering::Greater {
            return Some(mk("inaccurate", "within 2^-1074".into(), format!("{:e}", f)));
        }
        return None;
    }
    // normal range (or above MAX but finite result): |f - v| * 2^48 <= |v|
    let lhs = Dec { n: &adiff.n * &lim.two48, s: adiff.s };
    if cmp_val(&lhs.n, lhs.s, &av.n, av.s) == Ordering::Greater {
        let _ = above_max;
        return Some(mk("inaccurate", "relative error <= 2^-48".into(), format!("{:e}", f)));
    }
    None
}

fn mantissas(bits: u32, seed: u64) -> Vec<u64> {
    let full: u64 = (1u64 << bits) - 1;
    let mut v: Vec<u64> = vec![0, 1, 2, 3, full, full - 1, full >> 1, (full >> 1) + 1, 0x2AAAAAAAAAAAAA & full, 0x55555555555555 & full];
    for k in 0..bits {
        v.push(1u64 << k);
        v.push((1u64 << k) - 1);
        v.push(full ^ ((1u64 << k) - 1));
    }
    let mut x = seed.wrapping_mul(0x9E3779B97F4A7C15).wrapping_add(12345);
    for _ in 0..16 {
        x = x.wrapping_mul(6364136223846793005).wrapping_add(1442695040888963407);
        v.push((x >> 11) & full);
    }
    v.sort();
    v.dedup();
    v
}

fn replay(tb: &Tables, lim: &Limits, case: &Value) -> Vec<Violation> {
    match case["kind"].as_str().unwrap() {
        "from_float" => {
            let bits = u64::from_str_radix(case["bits"].as_str().unwrap().trim_start_matches("0x"), 16).unwrap();
            if case["type"] == "f32" {
                check_f32(tb, bits as u32, true).into_iter().collect()
            } else {
                check_f64(tb, bits, true).into_iter().collect()
            }
        }
        _ => check_to_f64(lim, &jd(&case["x"]), case["via_ref"].as_bool().unwrap()).into_iter().collect(),
    }
}

fn main() {
    let (run, inv) = Run::start("C14");
    let tb = Tables::new();
    let lim = Limits::new();
    if let Invocation::Replay(f) = &inv {
        run.replay(f, |c| replay(&tb, &lim, c));
    }
    let tier = run.tier();
    run.rule("floats: every bit pattern of the stated set through TryFrom (and from_f32/from_f64, reference to_f64, to_f32 on the alphabet) compared with the exact value m*2^e decoded by the model, then back through to_f64 (identical bits required); decimals: digit-string x exponent grid through to_f64 within the property's tolerance, judged with exact integers; non-trivial = finite non-zero float / non-zero decimal; patterns distinct by construction");

    // F1: f32
    if tier.is_thorough() {
        run.bound("f32", "all 2^32 bit patterns");
        run.par("F1 all f32 bit patterns", 1 << 16, |hi| {
            let mut t = Tally::default();
            for lo in 0..(1u32 << 16) {
                let bits = ((hi as u32) << 16) | lo;
                t.states += 1;
                t.transitions += 2;
                if (bits & 0x7fff_ffff) != 0 && (bits >> 23) & 0xff != 0xff {
                    t.nontrivial += 1;
                }
                if let Some(v) = check_f32(&tb, bits, lo % 4096 == 0) {
                    run.report(v);
                }
            }
            t
        });
    } else {
        let ms = mantissas(23, run.seed());
        run.bound("f32", format!("all 256 exponent fields x {} mantissas x sign", ms.len()));
        run.par("F1 f32 exponent fields x mantissa alphabet", 256, |ef| {
            let mut t = Tally::default();
            for &m in ms.iter() {
                for sign in [0u32, 1] {
                    let bits = (sign << 31) | ((ef as u32) << 23) | m as u32;
                    t.states += 1;
                    t.transitions += 2;
                    if ef != 255 && (ef != 0 || m != 0) {
                        t.nontrivial += 1;
                    }
                    if let Some(v) = check_f32(&tb, bits, true) {
                        run.report(v);
                    }
                }
            }
            if ef % 64 == 1 {
                run.sample(|| json!({"kind": "from_float", "type": "f32", "bits": format!("{:#x}", ((ef as u32) << 23) | 0x2AAAAA)}));
            }
            t
        });
    }

    // F2: f64: all 2048 exponent fields x mantissa alphabet
    let mut ms = mantissas(52, run.seed());
    if tier.is_thorough() {
        // ~1500 mantissas: add a dense LCG stream
        let mut x = run.seed().wrapping_add(777);
        for _ in 0..1300 {
            x = x.wrapping_mul(6364136223846793005).wrapping_add(1442695040888963407);
            ms.push((x >> 11) & ((1u64 << 52) - 1));
        }
        ms.sort();
        ms.dedup();
    }
    run.bound("f64", format!("all 2048 exponent fields x {} mantissas x sign", ms.len()));
    run.par("F2 f64 exponent fields x mantissa alphabet", 2048, |ef| {
        let mut t = Tally::default();
        for &m in ms.iter() {
            for sign in [0u64, 1] {
                let bits = (sign << 63) | ((ef as u64) << 52) | m;
                t.states += 1;
                t.transitions += 2;
                if ef != 2047 && (ef != 0 || m != 0) {
                    t.nontrivial += 1;
                }
                if let Some(v) = check_f64(&tb, bits, m % 5 == 0) {
                    run.report(v);
                }
            }
        }
        if ef % 512 == 3 {
            run.sample(|| json!({"kind": "from_float", "type": "f64", "bits": format!("{:#x}", ((ef as u64) << 52) | 1)}));
        }
        t
    });

    // D1: decimals: digit strings of length 1..L x 6 patterns x decimal exponents -400..400
    let lmax: usize = tier.pick(40, 400);
    let lens: Vec<usize> = if tier.is_thorough() { (1..=60).chain([100, 200, 300, 400]).collect() } else { (1..=lmax).collect() };
    run.bound("D1_digit_lengths", json!(lens));
    run.bound("D1_exponents", "-400..=400 (exponent of the leading digit)");
    run.par("D1 decimal grid -> to_f64", lens.len(), |li| {
        let len = lens[li];
        let mut t = Tally::default();
        for (_, d) in patterns(len, run.seed()) {
            let n = big(&d);
            for e in -400i128..=400 {
                // value = d.ddd * 10^e  => scale = len - 1 - e
                for sign in [1, -1] {
                    let x = Dec { n: &n * sign, s: len as i128 - 1 - e };
                    t.states += 1;
                    t.transitions += 1;
                    t.nontrivial += 1;
                    if let Some(v) = check_to_f64(&lim, &x, e % 7 == 0) {
                        run.report(v);
                    }
                }
            }
        }
        run.sample(|| json!({"kind": "to_f64", "x": Dec { n: big(&"9".repeat(len)), s: 330 }.show(), "via_ref": false}));
        t
    });

    // D3: very long decimals (far beyond the 767 digits of any float image)
    let vlong: Vec<usize> = tier.pick(vec![500, 767, 768, 1000, 1500, 1912, 1913, 1990, 2500, 3263, 4000, 6000], (500..=6100).step_by(37).collect());
    run.bound("D3_very_long_digit_lengths", json!(vlong));
    run.par("D3 very long decimals -> to_f64", vlong.len(), |i| {
        let mut t = Tally::default();
        let l = vlong[i];
        for (_, d) in patterns(l, run.seed()) {
            let n = big(&d);
            for e in [-330i128, -300, -20, -1, 0, 1, 17, 300, 308, 309] {
                for sign in [1, -1] {
                    let x = Dec { n: &n * sign, s: l as i128 - 1 - e };
                    t.states += 1;
                    t.transitions += 2;
                    t.nontrivial += 1;
                    for via_ref in [false, true] {
                        if let Some(v) = check_to_f64(&lim, &x, via_ref) {
                            run.report(v);
                        }
                    }
                }
            }
        }
        t
    });

    // D2: halfway cases between adjacent floats at 64 exponent fields (+-1 in the 30th digit);
    //     neighbourhoods of MAX, MIN_POSITIVE and the smallest subnormal; extreme scales
    let mut d2: Vec<Dec> = vec![];
    for i in 0..64u64 {
        let ef = 1 + i * 32;
        for m in [0u64, 1, (1 << 52) - 2, 0x5555555555555] {
            let a = exact_value(&decode_f64((ef << 52) | m)).unwrap();
            let b = exact_value(&decode_f64(((ef << 52) | m) + 1)).unwrap();
            let mid = a.add(&b).mul(&Dec::new(5, 1));
            // perturb at the 30th significant digit
            let e30 = Dec { n: BigInt::one(), s: -(ndigits(&mid.n) as i128 - 1 - mid.s) + 29 };
            d2.push(mid.clone());
            d2.push(mid.add(&e30));
            d2.push(mid.sub(&e30));
            d2.push(mid.neg());
        }
    }
    let maxd = Dec { n: f64_max(), s: 0 };
    let ulp_max = Dec { n: BigInt::one() << 971usize, s: 0 };
    for k in [-2i64, -1, 0, 1, 2] {
        d2.push(maxd.add(&ulp_max.mul(&Dec::new(k, 0))));
        d2.push(maxd.add(&ulp_max.mul(&Dec::new(5 * k, 1))));
        d2.push(maxd.add(&ulp_max.mul(&Dec::new(k, 0))).neg());
    }
    d2.push(Dec::new(18, -307));
    d2.push(Dec::new(17976931348623158i64, -292));
    d2.push(Dec::new(2, -308));
    d2.push(Dec::new(1, -400));
    let minp = exact_value(&decode_f64(f64::MIN_POSITIVE.to_bits())).unwrap();
    let step = exact_value(&decode_f64(1)).unwrap();
    for k in [-3i64, -1, 0, 1, 3] {
        d2.push(minp.add(&step.mul(&Dec::new(k, 0))));
        d2.push(minp.add(&step.mul(&Dec::new(5 * k, 1))).neg());
    }
    for k in [1i64, 2, 3, 5, 9, 10, 11, 15, 25] {
        d2.push(step.mul(&Dec::new(k, 1)));
        d2.push(step.mul(&Dec::new(-k, 1)));
    }
    d2.push(Dec::new(1, 330));
    d2.push(Dec::new(-1, 400));
    for s in [i32::MAX as i128, i32::MAX as i128 + 1, -(i32::MAX as i128), i32::MIN as i128, i32::MIN as i128 - 1, 1 << 40, -(1i128 << 40), i64::MIN as i128 + 1, i64::MAX as i128, i64::MIN as i128, 3_000_000_000, -3_000_000_000] {
        for n in [1i64, -1, 123456789] {
            d2.push(Dec::new(n, s));
        }
        d2.push(Dec { n: pow10(30) + 1, s });
    }
    run.bound("D2_special_decimals", d2.len());
    run.par("D2 halfway cases, range limits, extreme scales", d2.len(), |i| {
        let mut t = Tally::default();
        t.states += 1;
        t.transitions += 2;
        t.nontrivial += 1;
        for via_ref in [false, true] {
            if let Some(v) = check_to_f64(&lim, &d2[i], via_ref) {
                run.report(v);
            }
        }
        t
    });
    // D4: structured coefficients (word limits, word-crossing products, digit patterns at every length, carry
    // chains, all-ones words) at decimal exponents across the whole f64 range
    let st = structured_ints(tier.pick(80, 300), tier.pick(24, 60), run.seed());
    run.bound("D4_structured_integers", st.len());
    run.bound("D4_exponents", "every 7th exponent of the leading digit in -350..=315, and -2..=2");
    run.par("D4 structured decimals -> to_f64", st.len(), |i| {
        let mut t = Tally::default();
        let l = ndigits(&st[i]) as i128;
        let es: Vec<i128> = (-350i128..=315).step_by(7).chain(-2..=2).collect();
        for e in es {
            for sign in [1, -1] {
                let x = Dec { n: &st[i] * sign, s: l - 1 - e };
                t.states += 1;
                t.transitions += 1;
                t.nontrivial += 1;
                if let Some(v) = check_to_f64(&lim, &x, e % 2 == 0) {
                    run.report(v);
                }
            }
        }
        t
    });
    // D5: long coefficients far outside the f64 range in both directions (decimal exponents of the leading digit
    // around +-1000, +-10^4, +-10^5, +-10^9 and the i32 limits): the result is +-0 / +-infinity, never None
    let st5 = structured_ints(tier.pick(60, 120), 4, run.seed());
    let far_e: Vec<i128> = vec![-999, -1000, -1001, -9999, -10000, -100000, -999999999, -1000000000, -2147483647, -2147483648, -2147483649, 999, 1000, 10000, 100000, 1000000000, 2147483647, 2147483648];
    run.bound("D5_structured_integers", st5.len());
    run.bound("D5_exponents", json!(far_e.iter().map(|e| e.to_string()).collect::<Vec<_>>()));
    run.par("D5 long coefficients far outside the f64 range", st5.len(), |i| {
        let mut t = Tally::default();
        let l = ndigits(&st5[i]) as i128;
        for &e in far_e.iter() {
            for sign in [1, -1] {
                let x = Dec { n: &st5[i] * sign, s: l - 1 - e };
                t.states += 1;
                t.transitions += 1;
                t.nontrivial += 1;
                if let Some(v) = check_to_f64(&lim, &x, e % 2 == 0) {
                    run.report(v);
                }
            }
        }
        t
    });
    let _ = BigInt::zero();
    // the whole exploration once more against the subject built WITHOUT its `std` feature (to_f64/to_f32 take the String-based path and libm::pow instead of the stack buffer and f64::powi)
    run.bound("build_variants", "std (this process) + no_std (child process, same domain)");
    run.variant("no_std");
    run.finish();
}
