//! C10 — square root is the true root rounded as the context dictates.
use props::alpha::*;
use props::engine::*;
use props::roots::*;
use serde_json::json;
use spec::*;

fn main() {
    let (run, inv) = Run::start("C10");
    if let Invocation::Replay(f) = &inv {
        run.replay(f, replay);
    }
    let tier = run.tier();
    run.rule("every (radicand, precision, mode) of each sub-domain through sqrt_with_context (+ the three reference forms and sqrt() on sub-grids) against the certified integer square root: floor root r with r^2 <= X < (r+1)^2 asserted, exactness r^2 == X, midpoint position (2r+1)^2 vs 4X; every case needs a rounding decision or an exactness decision, so every distinct (radicand, p, mode) counts as non-trivial; cases distinct by construction");
    run.assume("results are compared by value; the representation of the root is not constrained");

    // S1 small-scope grid
    let nmax: usize = tier.pick(3000, 200_000);
    let pmax: u64 = tier.pick(8, 12);
    run.bound("S1_unscaled", format!("1..={}", nmax));
    run.bound("S1_scales", "-6..=6");
    run.bound("S1_precisions", format!("1..={}", pmax));
    let ps: Vec<u64> = (1..=pmax).collect();
    run.par("S1 small-scope grid", nmax, |i| {
        let n = i as i64 + 1;
        let mut t = Tally::default();
        for s in -6i128..=6 {
            let x = Dec::new(n, s);
            sweep(&run, 2, &x, &ps, n % 7 == 0, &mut t);
            if n % 7 == 0 {
                // negative radicands through all forms
                sweep(&run, 2, &Dec::new(-n, s), &ps[..2], true, &mut t);
            }
            if n % 50 == 1 {
                check_default(&run, 2, &x, &mut t);
            }
        }
        if i % 499 == 0 {
            run.sample(|| case_json("sqrt_with_context", &Dec::new(n, -3), 3, Mode::Ceiling));
        }
        t
    });

    // S1b precision sweep: every p in 1..=150 on a small radicand set (the property's stated precision range)
    let pmax_sweep: u64 = tier.pick(60, 150);
    let nsweep: usize = tier.pick(120, 400);
    run.bound("S1b_precisions", format!("9..={}", pmax_sweep));
    run.bound("S1b_unscaled", format!("1..={} at scales -3, 0, 1, 2", nsweep));
    let psweep: Vec<u64> = (9..=pmax_sweep).collect();
    run.par("S1b precision sweep", nsweep, |i| {
        let mut t = Tally::default();
        for s in [-3i128, 0, 1, 2] {
            let x = Dec::new(i as i64 + 1, s);
            sweep(&run, 2, &x, &psweep, false, &mut t);
            
        }
        t
    });

    // S2/S3: perfect squares, squares +- a far digit, ties
    let pset: Vec<u64> = tier.pick(vec![1, 2, 3, 4, 5, 8, 16], vec![1, 2, 3, 4, 5, 6, 7, 8, 16, 33, 50]);
    run.bound("S2_precisions", json!(pset));
    run.par("S2 perfect squares, near-squares, ties", pset.len(), |i| {
        let p = pset[i];
        let mut t = Tally::default();
        for x in near_powers(2, p, run.seed()) {
            sweep(&run, 2, &x, &[p], false, &mut t);
            if p > 1 {
                sweep(&run, 2, &x, &[p - 1, p + 1], false, &mut t);
            }
        }
        t
    });

    // S4 long inputs
    let plong: Vec<u64> = tier.pick(vec![1, 2, 3, 5, 16, 50, 100], vec![1, 2, 3, 5, 16, 50, 100, 150]);
    let max_len: usize = tier.pick(300, 2000);
    run.bound("S4_precisions", json!(plong));
    run.bound("S4_max_digit_length", max_len);
    run.par("S4 long inputs", plong.len(), |i| {
        let p = plong[i];
        let mut t = Tally::default();
        for x in long_inputs(2, p, max_len, run.seed()) {
            sweep(&run, 2, &x, &[p], x.s == 1, &mut t);
        }
        run.sample(|| case_json("sqrt_with_context", &Dec { n: big(&format!("4{}", "0".repeat(210))), s: 0 }, p, Mode::HalfEven));
        t
    });

    // S6 binary-structured radicands 2^n - 1, 2^n, 2^n + 1 for every n (decimal families never produce long runs
    // of one-bits), at precisions on both sides of the word-size switches of the integer root
    let nmax_bits: usize = tier.pick(700, 1400);
    let p6: Vec<u64> = tier.pick(vec![3, 20, 34, 50, 100], vec![3, 20, 33, 34, 35, 50, 76, 77, 78, 100, 150]);
    run.bound("S6_powers_of_two", format!("2^n-1, 2^n, 2^n+1 for n <= {}", nmax_bits));
    run.bound("S6_precisions", json!(p6));
    run.par("S6 radicands 2^n-1, 2^n, 2^n+1", nmax_bits + 1, |n| {
        let mut t = Tally::default();
        for d in [-1i64, 0, 1] {
            let v = (num_bigint::BigInt::from(1) << n) + d;
            if v <= num_bigint::BigInt::from(0) {
                continue;
            }
            for s in [0i128, 1] {
                sweep(&run, 2, &Dec { n: v.clone(), s }, &p6, false, &mut t);
            }
        }
        t
    });
    // S8 structured radicands (word limits, word-crossing products, patterns at every length, carry chains,
    // all-ones words) x scales of both parities / residues x written-out trailing zeros
    let st = props::alpha::structured_ints(tier.pick(60, 200), tier.pick(24, 60), run.seed());
    let p8: Vec<u64> = tier.pick(vec![1, 5, 16, 19, 38, 100], vec![1, 2, 5, 9, 16, 18, 19, 20, 37, 38, 39, 77, 100, 101]);
    run.bound("S8_structured_integers", st.len());
    run.bound("S8_precisions", json!(p8));
    run.par("S8 structured radicands", st.len(), |i| {
        let mut t = Tally::default();
        for x in props::alpha::structured_decimals(&st[i..=i], &[0, 1, 2, -1, -3], &[0, 1, 12]) {
            if x.n.sign() == num_bigint::Sign::Minus && 2 == 2 {
                continue;
            }
            sweep(&run, 2, &x, &p8, false, &mut t);
        }
        t
    });
    // S9 call histories: the functions are pure, so a call must not depend on the calls made before it on the same
    // thread (caches of earlier roots, reused scratch state): every ordered pair of (precision, mode) settings from
    // a small set on each operand, and the descending chain of precisions 40..1 under each mode
    let hx: Vec<Dec> = vec![Dec::new(2, 0), Dec::new(3, 0), Dec::new(5, 0), Dec::new(7, 4), Dec::new(10, 0), Dec::new(11, 1), Dec::new(2, 1), Dec::new(99, 0), Dec::new(1000, 0), Dec::new(12345, 2), Dec::new(6, 0), Dec::new(8, 0), Dec::new(15, 0), Dec::new(27, 1), Dec::new(50, 0), Dec::new(123456789, 0)];
    let hp: Vec<u64> = tier.pick(vec![1, 2, 3, 5, 17, 18], vec![1, 2, 3, 4, 5, 8, 16, 17, 18, 19, 34]);
    run.bound("S9_history_operands", hx.len());
    run.bound("S9_history_precisions", json!(hp));
    run.par("S9 call histories of length two", hx.len(), |i| {
        let mut t = Tally::default();
        props::roots::history_pairs(&run, 2, &hx[i], &hp, tier.pick(40, 100), &mut t);
        t
    });
    // S7 giant precisions: near-powers from below and above, far beyond the stated p <= 150
    let giant: Vec<u64> = tier.pick(vec![819, 1000], vec![500, 819, 1000, 2730, 3000]);
    run.bound("S7_giant_precisions", json!(giant));
    run.par("S7 giant precisions on near-powers", giant.len(), |i| {
        let p = giant[i];
        let mut t = Tally::default();
        for r in [2i64, 3, 17, 999] {
            let pw = num_bigint::BigInt::from(r).pow(2);
            for j in [p + 3, 2 * p - 1, 2 * p, 3 * p + 7] {
                let unit = Dec { n: num_bigint::BigInt::from(1), s: j as i128 };
                let base = Dec { n: pw.clone(), s: 0 };
                for x in [base.sub(&unit), base.add(&unit), base.clone()] {
                    sweep(&run, 2, &x, &[p], false, &mut t);
                    
                }
            }
        }
        t
    });

    // S5 shortcuts: zero, one in any representation, negative
    run.seq("S5 zero / one / negative", || {
        let mut t = Tally::default();
        for x in [Dec::new(0, 0), Dec::new(0, 5), Dec::new(0, -5), Dec::new(1, 0), Dec::new(100, 2), Dec::new(1000, 3), Dec::new(-1, 0), Dec::new(-4, 0), Dec::new(-25, 1), Dec::new(4, 0), Dec::new(400, 2)] {
            sweep(&run, 2, &x, &[1, 2, 5, 100], true, &mut t);
            check_default(&run, 2, &x, &mut t);
        }
        t
    });
    // S10: delicate roundings found by the model.  For every radicand of the set the model scans the first 150 digits
    // of the true root for a guard-digit run (0000, 9999, 5000, 4999 after the p-th digit) and the subject is called
    // at exactly those precisions, under every mode and through every entry point.  Radicands: perfect powers moved
    // by a power of ten that is NOT a multiple of 2 (r^2 * 10^j: digits of a power, irrational root), and every small
    // integer at every residue of the scale.
    let dk: usize = tier.pick(6000, 60_000);
    run.bound("S10_delicate", format!("r^2 * 10^j for r = 1..={}, j not divisible by 2, and n = 2..={} at scales 0..2; precisions 1..=150 with a 4-digit guard run", dk, dk + 1));
    run.par("S10 model-located delicate roundings", dk, |i| {
        let mut t = Tally::default();
        let r = num_bigint::BigInt::from(i as u64 + 1);
        let pw = &r * &r;
        for s in [1i128, -1, 3] {
            delicate_sweep(&run, 2, &Dec { n: pw.clone(), s }, 150, &mut t);
        }
        for s in 0..2i128 {
            delicate_sweep(&run, 2, &Dec { n: r.clone() + 1, s }, 150, &mut t);
        }
        t
    });
    // S11: radicands whose leading machine word is an exact power m^2 followed by all-ones / single-bit low bits
    // (alpha::binary_power_heads): a root routine seeded from the leading word starts below the true root
    let js: Vec<usize> = (16..=tier.pick(300, 300 * 2)).collect();
    let bh = binary_power_heads(2, &js);
    let p11: Vec<u64> = vec![1, 12, 20, 25, 30, 45, 100];
    run.bound("S11_binary_power_heads", json!({"radicands": bh.len(), "low_bit_blocks": format!("{}..={}", js[0], js[js.len() - 1]), "scales": [0, 40, -7], "precisions": p11}));
    run.par("S11 leading word an exact power", bh.len(), |i| {
        let mut t = Tally::default();
        for s in [0i128, 40, -7] {
            sweep(&run, 2, &Dec { n: bh[i].clone(), s }, &p11, false, &mut t);
        }
        t
    });
    // the whole exploration once more against the subject built under a non-default compile-time configuration
    // (mc/variants/cfg_alt/build.env: HalfUp, precision 34, Display thresholds 3 / 9, padding limit 50)
    run.bound("build_variants", "default configuration (this process) + cfg_alt (child process, same domain)");
    run.variant("cfg_alt");
    run.finish();
}
