//! C20 — compile-time configuration is honoured by every default-context operation.
//!
//! The configuration space is explored by actually rebuilding the subject (and a small probe program)
//! under every configuration of the stated lattice, in per-worker target directories, and running the
//! small-scope-exhaustive probe (mc/cfgprobe) in each build.
use props::engine::*;
use serde_json::{json, Value};
use std::path::PathBuf;
use std::process::Command;
use std::sync::Mutex;

#[derive(Clone, Debug, PartialEq, Eq, PartialOrd, Ord)]
struct Cfg {
    precision: u64,
    mode: &'static str,
    lower: u32,
    upper: u32,
    padding: u32,
}
const MODES: [&str; 7] = ["Up", "Down", "Ceiling", "Floor", "HalfUp", "HalfDown", "HalfEven"];
const PRECS: [u64; 8] = [1, 2, 3, 7, 16, 34, 100, 250];
const LOWERS: [u32; 3] = [1, 5, 9];
const UPPERS: [u32; 4] = [0, 2, 15, 40];
const PADS: [u32; 3] = [0, 5, 1000];
const DEFAULT: Cfg = Cfg { precision: 100, mode: "HalfEven", lower: 5, upper: 15, padding: 1000 };

impl Cfg {
    fn json(&self) -> Value {
        json!({"precision": self.precision, "mode": self.mode, "lower": self.lower, "upper": self.upper, "padding": self.padding})
    }
    fn from_json(v: &Value) -> Cfg {
        Cfg {
            precision: v["precision"].as_u64().unwrap(),
            mode: MODES.iter().copied().find(|m| *m == v["mode"].as_str().unwrap()).unwrap(),
            lower: v["lower"].as_u64().unwrap() as u32,
            upper: v["upper"].as_u64().unwrap() as u32,
            padding: v["padding"].as_u64().unwrap() as u32,
        }
    }
}

fn root() -> PathBuf {
    std::env::var_os("VERIF_ROOT").map(PathBuf::from).unwrap_or_else(|| PathBuf::from("/verif"))
}

/// build the probe under `c` in target directory `slot` and run it; Ok(stdout json) or Err(machinery message)
fn build_and_probe(c: &Cfg, slot: usize, size: &str) -> Result<Value, String> {
    let r = root();
    let target = r.join(format!("mc/target/cfg-{}", slot));
    let out = Command::new("cargo")
        .args(["build", "--offline", "--quiet", "--manifest-path"])
        .arg(r.join("mc/cfgprobe/Cargo.toml"))
        .env("CARGO_TARGET_DIR", &target)
        .env("CARGO_NET_OFFLINE", "true")
        .env("RUST_BIGDECIMAL_DEFAULT_PRECISION", c.precision.to_string())
        .env("RUST_BIGDECIMAL_DEFAULT_ROUNDING_MODE", c.mode)
        .env("RUST_BIGDECIMAL_FMT_EXPONENTIAL_LOWER_THRESHOLD", c.lower.to_string())
        .env("RUST_BIGDECIMAL_FMT_EXPONENTIAL_UPPER_THRESHOLD", c.upper.to_string())
        .env("RUST_BIGDECIMAL_FMT_MAX_INTEGER_PADDING", c.padding.to_string())
        .env_remove("RUSTFLAGS")
        .output()
        .map_err(|e| format!("cannot run cargo: {}", e))?;
    if !out.status.success() {
        return Err(format!("build failed under {:?}: {}", c, String::from_utf8_lossy(&out.stderr).chars().take(1500).collect::<String>()));
    }
    let run = Command::new(target.join("debug/cfgprobe"))
        .args([c.precision.to_string(), c.mode.to_string(), c.lower.to_string(), c.upper.to_string(), c.padding.to_string(), size.to_string()])
        .output()
        .map_err(|e| format!("cannot run probe: {}", e))?;
    if !run.status.success() {
        return Err(format!("probe crashed under {:?}: {}", c, String::from_utf8_lossy(&run.stderr).chars().take(800).collect::<String>()));
    }
    serde_json::from_slice(&run.stdout).map_err(|e| format!("probe output not JSON under {:?}: {} / {}", c, e, String::from_utf8_lossy(&run.stdout).chars().take(300).collect::<String>()))
}

/// make sure every per-worker target directory has the dependency crates built (copy of slot 0)
fn prepare_slots(n: usize) -> Result<(), String> {
    let r = root();
    let t0 = r.join("mc/target/cfg-0");
    build_and_probe(&DEFAULT, 0, "small")?;
    for i in 1..n {
        let ti = r.join(format!("mc/target/cfg-{}", i));
        if !ti.join("debug").exists() {
            let st = Command::new("cp").arg("-r").arg(&t0).arg(&ti).status().map_err(|e| e.to_string())?;
            if !st.success() {
                return Err("cannot copy target directory".into());
            }
        }
    }
    Ok(())
}

fn violations_of(c: &Cfg, res: &Value) -> Vec<Violation> {
    res["violations"]
        .as_array()
        .cloned()
        .unwrap_or_default()
        .into_iter()
        .map(|v| {
            let site = v["site"].as_str().unwrap_or("?").to_string();
            Violation::new(&format!("config: {}", site), "differs_from_explicit", json!({"config": c.json(), "site": site, "case": v["case"]}), v["expected"].as_str().unwrap_or("").to_string(), v["observed"].as_str().unwrap_or("").to_string())
                .attr("precision", c.precision)
                .attr("mode", c.mode)
                .attr("lower", c.lower)
                .attr("upper", c.upper)
                .attr("padding", c.padding)
        })
        .collect()
}

fn main() {
    let (run, inv) = Run::start("C20");
    if let Invocation::Replay(f) = &inv {
        run.replay(f, |case| {
            let c = Cfg::from_json(&case["config"]);
            match build_and_probe(&c, 0, "full") {
                Ok(res) => violations_of(&c, &res).into_iter().filter(|v| v.case["site"] == case["site"]).take(1).collect(),
                Err(e) => machinery_exit(&e),
            }
        });
    }
    let tier = run.tier();
    let mut cfgs: Vec<Cfg> = vec![];
    if tier.is_thorough() {
        for &precision in PRECS.iter() {
            for mode in MODES {
                for &lower in LOWERS.iter() {
                    for &upper in UPPERS.iter() {
                        for &padding in PADS.iter() {
                            cfgs.push(Cfg { precision, mode, lower, upper, padding });
                        }
                    }
                }
            }
        }
    } else {
        cfgs.push(DEFAULT.clone());
        for &precision in PRECS.iter() {
            for mode in MODES {
                cfgs.push(Cfg { precision, mode, ..DEFAULT.clone() });
            }
        }
        for &lower in LOWERS.iter() {
            for &upper in UPPERS.iter() {
                for &padding in PADS.iter() {
                    cfgs.push(Cfg { lower, upper, padding, ..DEFAULT.clone() });
                }
            }
        }
        // a few corners with every factor non-default at once
        cfgs.push(Cfg { precision: 1, mode: "Up", lower: 1, upper: 0, padding: 0 });
        cfgs.push(Cfg { precision: 2, mode: "Floor", lower: 9, upper: 40, padding: 5 });
        cfgs.push(Cfg { precision: 3, mode: "Ceiling", lower: 1, upper: 2, padding: 5 });
        cfgs.push(Cfg { precision: 250, mode: "HalfDown", lower: 9, upper: 0, padding: 0 });
    }
    // simplest first: default, then by number of non-default factors
    cfgs.sort_by_key(|c| {
        let nd = (c.precision != 100) as u8 + (c.mode != "HalfEven") as u8 + (c.lower != 5) as u8 + (c.upper != 15) as u8 + (c.padding != 1000) as u8;
        (nd, c.clone())
    });
    cfgs.dedup();
    run.bound("configurations", cfgs.len());
    run.bound("lattice", json!({"precision": PRECS, "mode": MODES, "lower": LOWERS, "upper": UPPERS, "padding": PADS}));
    run.bound("selection", if tier.is_thorough() { "full product (2016 configurations)" } else { "default + all 56 precision x mode pairs + all 36 threshold triples + 4 all-non-default corners" });
    run.rule("every configuration of the selection is BUILT (RUST_BIGDECIMAL_* environment, cargo rebuild of the subject and the probe) and probed: Context::default reports the configured values; sqrt/cbrt/inverse/round with implicit defaults equal the explicit-context calls (and the model) on a small-scope grid; division judged with the configured precision (incl. 'delivers exactly P digits when the integer part fits'); exp has at most P digits and is within one unit of the P-th digit in EVERY configuration (also for arguments so small that e^x rounds to 1); Display switches notation exactly at the configured zero counts; {:.N}/{:.Ne} round with the configured mode; integer padding is applied iff within the configured limit; states = configurations built, transitions = probe comparisons; non-trivial = configurations differing from the default");

    let nslots = threads();
    if let Err(e) = prepare_slots(nslots) {
        machinery_exit(&e);
    }
    let slots: Mutex<Vec<usize>> = Mutex::new((0..nslots).collect());
    let size = if tier.is_thorough() { "full" } else { "small" };
    run.par_opts("configuration lattice", cfgs.len(), 600, &|i| cfgs[i].json(), |i| {
        let mut t = Tally::default();
        let slot = slots.lock().unwrap().pop().expect("no free build slot");
        let res = build_and_probe(&cfgs[i], slot, size);
        slots.lock().unwrap().push(slot);
        match res {
            Err(e) => run.machinery_error(e),
            Ok(res) => {
                t.states += 1;
                t.transitions += res["checks"].as_u64().unwrap_or(0);
                if cfgs[i] != DEFAULT {
                    t.nontrivial += 1;
                }
                for v in violations_of(&cfgs[i], &res) {
                    run.report(v);
                }
            }
        }
        if i % 40 == 0 {
            run.sample(|| cfgs[i].json());
        }
        t
    });
    run.finish();
}
