//! C04 — every textual rendering parses back to the same decimal.
use bigdecimal::BigDecimal;
use num_traits::Zero;
use props::alpha::*;
use props::conv::*;
use props::engine::*;
use props::faulty::{Fault, FaultyWriter};
use std::fmt::Write as _;
use serde_json::{json, Value};
use spec::numeral::expected_parse;
use spec::*;
use std::str::FromStr;

const LOWER: &str = match option_env!("RUST_BIGDECIMAL_FMT_EXPONENTIAL_LOWER_THRESHOLD") {
    Some(s) => s,
    None => "5",
};
const UPPER: &str = match option_env!("RUST_BIGDECIMAL_FMT_EXPONENTIAL_UPPER_THRESHOLD") {
    Some(s) => s,
    None => "15",
};

#[derive(Clone, Copy, PartialEq, Eq, Debug)]
enum Kind {
    Display,
    LowerExp,
    UpperExp,
    Sci,
    Eng,
    Plain,
    WriteSci,
    WriteEng,
    WritePlain,
    RefDisplay,
    RefLowerExp,
    RefUpperExp,
}
const KINDS: [Kind; 12] = [Kind::Display, Kind::LowerExp, Kind::UpperExp, Kind::Sci, Kind::Eng, Kind::Plain, Kind::WriteSci, Kind::WriteEng, Kind::WritePlain, Kind::RefDisplay, Kind::RefLowerExp, Kind::RefUpperExp];
impl Kind {
    fn name(self) -> &'static str {
        match self {
            Kind::Display => "{}",
            Kind::LowerExp => "{:e}",
            Kind::UpperExp => "{:E}",
            Kind::Sci => "to_scientific_notation",
            Kind::Eng => "to_engineering_notation",
            Kind::Plain => "to_plain_string",
            Kind::WriteSci => "write_scientific_notation",
            Kind::WriteEng => "write_engineering_notation",
            Kind::WritePlain => "write_plain_string",
            Kind::RefDisplay => "ref {}",
            Kind::RefLowerExp => "ref {:e}",
            Kind::RefUpperExp => "ref {:E}",
        }
    }
    fn from_name(s: &str) -> Kind {
        KINDS.into_iter().find(|k| k.name() == s).expect("unknown rendering")
    }
    fn is_plain(self) -> bool {
        matches!(self, Kind::Plain | Kind::WritePlain)
    }
    fn is_display(self) -> bool {
        matches!(self, Kind::Display | Kind::RefDisplay)
    }
    fn is_eng(self) -> bool {
        matches!(self, Kind::Eng | Kind::WriteEng)
    }
    fn render(self, x: &BigDecimal) -> String {
        match self {
            Kind::Display => format!("{}", x),
            Kind::LowerExp => format!("{:e}", x),
            Kind::UpperExp => format!("{:E}", x),
            Kind::Sci => x.to_scientific_notation(),
            Kind::Eng => x.to_engineering_notation(),
            Kind::Plain => x.to_plain_string(),
            Kind::WriteSci => {
                let mut s = String::new();
                x.write_scientific_notation(&mut s).unwrap();
                s
            }
            Kind::WriteEng => {
                let mut s = String::new();
                x.write_engineering_notation(&mut s).unwrap();
                s
            }
            Kind::WritePlain => {
                let mut s = String::new();
                x.write_plain_string(&mut s).unwrap();
                s
            }
            Kind::RefDisplay => format!("{}", x.to_ref()),
            Kind::RefLowerExp => format!("{:e}", x.to_ref()),
            Kind::RefUpperExp => format!("{:E}", x.to_ref()),
        }
    }
}

impl Kind {
    /// the same rendering into a caller-supplied sink (None for the three String-returning methods, which take none)
    fn render_into(self, x: &BigDecimal, w: &mut FaultyWriter) -> Option<std::fmt::Result> {
        Some(match self {
            Kind::Display => write!(w, "{}", x),
            Kind::LowerExp => write!(w, "{:e}", x),
            Kind::UpperExp => write!(w, "{:E}", x),
            Kind::Sci | Kind::Eng | Kind::Plain => return None,
            Kind::WriteSci => x.write_scientific_notation(w),
            Kind::WriteEng => x.write_engineering_notation(w),
            Kind::WritePlain => x.write_plain_string(w),
            Kind::RefDisplay => write!(w, "{}", x.to_ref()),
            Kind::RefLowerExp => write!(w, "{:e}", x.to_ref()),
            Kind::RefUpperExp => write!(w, "{:E}", x.to_ref()),
        })
    }
}

/// S7 step: render `a` through `k1` into a sink with one injected fault; what the sink accepted must be a prefix of
/// the fault-free text, a refused write must surface as Err (and only then).  Returns a violation of those, if any.
fn faulted_render(k1: Kind, a: &Dec, pa: &BigDecimal, fault: Fault, full: &str) -> Option<Violation> {
    let mut w = FaultyWriter::new(fault);
    let case = json!({"render": k1.name(), "x": a.show(), "fault": fault.json()});
    let mk = |class: &str, exp: String, obs: String| Violation::new(&format!("faulted render {}", k1.name()), class, case.clone(), exp, obs).attr("render", k1.name()).attr("fault", true);
    let r = match guard(|| k1.render_into(pa, &mut w)) {
        Ok(Some(r)) => r,
        Ok(None) => return None,
        Err(p) => return Some(mk("panic", "Ok or Err".into(), p)),
    };
    if !full.starts_with(&w.written) {
        return Some(mk("sink_received_other_text", format!("a prefix of {:?}", clip(full)), format!("{:?}", clip(&w.written))));
    }
    if w.failed && r.is_ok() {
        return Some(mk("write_error_swallowed", "Err(fmt::Error)".into(), format!("Ok(()) with {:?} delivered", clip(&w.written))));
    }
    if !w.failed && (r.is_err() || w.written != full) {
        return Some(mk("fault_free_run_differs", format!("Ok with {:?}", clip(full)), format!("{:?} with {:?}", r, clip(&w.written))));
    }
    None
}

struct Cfg {
    lower: i128,
    upper: i128,
}

fn check(cfg: &Cfg, kind: Kind, xb: &BigDecimal, x: &Dec) -> Option<Violation> {
    let case = json!({"render": kind.name(), "x": x.show()});
    let d = ndigits(&x.n) as i128;
    let mk = |class: &str, exp: String, obs: String| {
        Violation::new(&format!("render {}", kind.name()), class, case.clone(), exp, obs)
            .attr("render", kind.name())
            .attr("zero", x.n.is_zero())
            .attr("scale", x.s.to_string())
            .attr("digits", d as u64)
    };
    let text = match guard(|| kind.render(xb)) {
        Ok(t) => t,
        Err(p) => return Some(mk("panic", "a rendering".into(), p)),
    };
    // (i) the real parser reads it back
    let back = match guard(|| BigDecimal::from_str(&text)) {
        Ok(Ok(b)) => dec(&b),
        Ok(Err(e)) => return Some(mk("unparseable", format!("text that parses to {}", x.show()), format!("{:?} -> {}", text, e))),
        Err(p) => return Some(mk("panic", "parse".into(), format!("{:?} -> {}", text, p))),
    };
    // the model's automaton, when it accepts the text, must denote the same pair as the real parser
    if let Some(m) = expected_parse(&text) {
        if m != back {
            return Some(mk("parser_disagrees_with_model", m.show(), format!("{:?} -> {}", text, back.show())));
        }
    }
    // (ii) equal value
    if !back.eq_val(x) {
        return Some(mk("wrong_value", x.show(), format!("{:?} -> {}", text, back.show())));
    }
    // (iii) identical digits and scale, except engineering, Display's zero padding for scale in [-upper,-1],
    // and plain notation of a negative scale (which cannot be written without padding)
    let exempt = kind.is_eng() || (kind.is_display() && x.s < 0 && -x.s <= cfg.upper) || (kind.is_plain() && x.s < 0);
    if !exempt && back != *x {
        return Some(mk("representation_changed", x.show(), format!("{:?} -> {}", text, back.show())));
    }
    // (iv) Display: exponent form exactly beyond the thresholds; bounded length
    if kind.is_display() {
        let leading_zeros = if x.s >= d { x.s - d } else { 0 };
        let want_exp = (x.s > 0 && leading_zeros > cfg.lower) || (x.s < 0 && -x.s > cfg.upper);
        let has_exp = text.contains('e') || text.contains('E');
        if want_exp != has_exp {
            return Some(mk("notation_switch", format!("exponent form: {}", want_exp), format!("{:?}", clip(&text))));
        }
        let bound = d + 1 + 2 + cfg.lower.max(cfg.upper) + 24;
        if text.len() as i128 > bound {
            return Some(mk("too_long", format!("at most {} characters", bound), format!("{} characters", text.len())));
        }
    }
    None
}

fn clip(s: &str) -> String {
    if s.len() > 80 {
        format!("{}…", &s[..80])
    } else {
        s.to_string()
    }
}

fn check_all(run: &Run, cfg: &Cfg, x: &Dec, t: &mut Tally) {
    let xb = bd(x);
    t.states += 1;
    for k in KINDS {
        if k.is_plain() && x.s.abs() > 100_001 {
            continue;
        }
        t.transitions += 1;
        if x.s != 0 {
            t.nontrivial += 1;
        }
        if let Some(v) = check(cfg, k, &xb, x) {
            run.report(v);
        }
    }
}

fn replay(cfg: &Cfg, case: &Value) -> Vec<Violation> {
    let x = jd(&case["x"]);
    let kind = Kind::from_name(case["render"].as_str().unwrap());
    if let Some(f) = case.get("fault") {
        // a faulted rendering judged on its own
        let full = kind.render(&bd(&x));
        if let Some(h) = case.get("after_fault") {
            let (a, k1) = (jd(&h["x"]), Kind::from_name(h["render"].as_str().unwrap()));
            let mut w = FaultyWriter::new(Fault::from_json(&h["fault"]));
            let _ = guard(|| k1.render_into(&bd(&a), &mut w));
        }
        return faulted_render(kind, &x, &bd(&x), Fault::from_json(f), &full)
            .map(|mut v| {
                if let (Some(h), Some(o)) = (case.get("after_fault"), v.case.as_object_mut()) {
                    o.insert("after_fault".into(), h.clone());
                }
                v
            })
            .into_iter()
            .collect();
    }
    if let Some(h) = case.get("after_fault") {
        // history: an earlier rendering whose sink failed at the recorded point, on this thread
        let a = jd(&h["x"]);
        let k1 = Kind::from_name(h["render"].as_str().unwrap());
        let mut w = FaultyWriter::new(Fault::from_json(&h["fault"]));
        let _ = guard(|| k1.render_into(&bd(&a), &mut w));
        return check(cfg, kind, &bd(&x), &x)
            .map(|mut v| {
                if let Some(o) = v.case.as_object_mut() {
                    o.insert("after_fault".into(), h.clone());
                }
                v
            })
            .into_iter()
            .collect();
    }
    if let Some(a) = case.get("after") {
        // a recorded history: the earlier rendering (of another decimal) first
        let prev = bd(&jd(a));
        let _ = guard(|| kind.render(&prev));
    }
    check(cfg, kind, &bd(&x), &x)
        .map(|mut v| {
            if let (Some(a), Some(o)) = (case.get("after"), v.case.as_object_mut()) {
                o.insert("after".into(), a.clone());
            }
            v
        })
        .into_iter()
        .collect()
}

fn pattern_digits(len: usize, seed: u64) -> Vec<String> {
    let mut v: Vec<String> = patterns(len, seed).into_iter().map(|p| p.1).collect();
    let asc: String = (0..len).map(|i| char::from(b'1' + (i % 9) as u8)).collect();
    v.push(asc);
    if len >= 2 {
        v.push(format!("7{}", "0".repeat(len - 1)));
        v.push(format!("{}1", "5".repeat(len - 1)));
    }
    v.sort();
    v.dedup();
    v
}

fn main() {
    let (run, inv) = Run::start("C04");
    let cfg = Cfg { lower: LOWER.parse().unwrap(), upper: UPPER.parse().unwrap() };
    if let Invocation::Replay(f) = &inv {
        run.replay(f, |c| replay(&cfg, c));
    }
    let tier = run.tier();
    run.rule("every decimal of each sub-domain x 12 renderings ({} {:e} {:E} scientific engineering plain, the three write_* forms, and {} {:e} {:E} on references); the text is parsed back by the real parser (and by the model automaton) and compared by value, and by digits+scale where the property promises it; Display additionally checked for the notation switch and the length bound; non-trivial = scale != 0 (a decimal point, padding or exponent must be produced); (decimal, rendering) pairs are distinct by construction");
    run.bound("display_thresholds", json!({"lower": cfg.lower as i64, "upper": cfg.upper as i64}));
    run.assume("plain notation with a negative scale falls under the zero-padding exemption (it cannot express a negative scale)");

    // S1: digit lengths x every scale -40..60 x patterns x signs
    let max_len: usize = tier.pick(40, 400);
    run.bound("S1_digit_lengths", format!("1..={}", max_len));
    run.bound("S1_scales", "-40..=60");
    run.par("S1 length x scale x pattern", max_len + 1, |len| {
        let mut t = Tally::default();
        if len == 0 {
            // zero with every scale
            for s in -40i128..=60 {
                check_all(&run, &cfg, &Dec::new(0, s), &mut t);
            }
            return t;
        }
        for digits in pattern_digits(len, run.seed()) {
            let n = big(&digits);
            for sign in [1, -1] {
                for s in -40i128..=60 {
                    check_all(&run, &cfg, &Dec { n: &n * sign, s }, &mut t);
                }
            }
        }
        run.sample(|| json!({"render": "{}", "x": Dec { n: big(&"9".repeat(len)), s: len as i128 + 6 }.show()}));
        t
    });

    // S2: small-scope product
    let nmax: i64 = tier.pick(9_999, 999_999);
    let smax: i64 = tier.pick(8, 12);
    run.bound("S2_unscaled_max", nmax);
    run.bound("S2_scales", format!("-{0}..={0}", smax));
    run.par("S2 small-scope product", (nmax + 1) as usize, |i| {
        let mut t = Tally::default();
        for sign in [1i64, -1] {
            if i == 0 && sign < 0 {
                continue;
            }
            for s in -smax..=smax {
                check_all(&run, &cfg, &Dec::new(i as i64 * sign, s as i128), &mut t);
            }
        }
        t
    });

    // S3: scale alphabet up to +-10^15 (plain only for |scale| <= 100001)
    let mut scales: Vec<i128> = vec![];
    for e in [3u32, 6, 9, 12, 15] {
        let p = 10i128.pow(e);
        scales.extend([p, -p, p - 1, -(p - 1), p + 1, -(p + 1)]);
    }
    scales.extend([4999, 5000, 5001, -4999, -5000, -5001, 32767, 32768, 65535, 65536, 65537, -65536, 100_000, -100_000, 100_001, i32::MAX as i128, i32::MIN as i128, i32::MAX as i128 + 1]);
    scales.retain(|s| s.abs() <= 10i128.pow(15));
    run.bound("S3_scales", json!(scales.iter().map(|s| s.to_string()).collect::<Vec<_>>()));
    run.par("S3 scale alphabet", scales.len(), |i| {
        let mut t = Tally::default();
        for len in [1usize, 2, 3, 19, 20, 40] {
            for digits in pattern_digits(len, run.seed()) {
                for sign in [1, -1] {
                    check_all(&run, &cfg, &Dec { n: big(&digits) * sign, s: scales[i] }, &mut t);
                }
            }
        }
        check_all(&run, &cfg, &Dec::new(0, scales[i]), &mut t);
        run.sample(|| json!({"render": "to_engineering_notation", "x": Dec::new(-12, scales[i]).show()}));
        t
    });

    // S4: long digit strings
    let lens: Vec<usize> = if tier.is_thorough() { vec![200, 300, 589, 590, 591, 1000, 1233, 1234, 2000, 3000, 5000, 10000] } else { vec![100, 300, 590, 1000, 1233, 1234, 2000, 4000] };
    run.bound("S4_lengths", json!(lens));
    run.par("S4 long digit strings", lens.len(), |i| {
        let mut t = Tally::default();
        let len = lens[i];
        for digits in pattern_digits(len, run.seed()) {
            for sign in [1, -1] {
                let l = len as i128;
                for s in [-21i128, -16, -15, -1, 0, 1, l - 1, l, l + 1, l + 5, l + 6, l + 7, 2 * l] {
                    check_all(&run, &cfg, &Dec { n: big(&digits) * sign, s }, &mut t);
                }
            }
        }
        t
    });
    // S5: structured operands (word limits, products crossing word limits, patterns at every length, carry
    // chains, all-ones words) x scales around the digit count x written-out trailing zeros
    let st = structured_ints(tier.pick(80, 300), tier.pick(24, 60), run.seed());
    run.bound("S5_structured_integers", st.len());
    run.par("S5 structured operands", st.len(), |i| {
        let mut t = Tally::default();
        let l = ndigits(&st[i]) as i128;
        for x in structured_decimals(&st[i..=i], &[0, 1, -1, -16, l - 1, l, l + 5, l + 6, l + 7, 19, 20], &[0, 1, 12]) {
            check_all(&run, &cfg, &x, &mut t);
        }
        t
    });
    // S6: call histories of length two over pairs of coefficients chosen against weak cache keys (two single-bit
    // changes in adjacent words at every relative rotation; a change in a middle word only; neighbours across a power
    // of ten): render A, then B through the same notation on the same thread; B is judged as usual
    let wk = weak_key_pairs();
    run.bound("S6_weak_key_pairs", wk.len());
    run.par("S6 rendering histories over weak-key pairs", (wk.len() + 15) / 16, |blk| {
        let mut t = Tally::default();
        for (a, b) in wk[blk * 16..((blk + 1) * 16).min(wk.len())].iter() {
            for (sa, sb) in [(0i128, 0i128), (7, 7), (3, -2)] {
                let (xa, xbd) = (Dec { n: a.clone(), s: sa }, Dec { n: b.clone(), s: sb });
                let (pa, pb) = (bd(&xa), bd(&xbd));
                t.states += 1;
                for k in KINDS {
                    t.transitions += 2;
                    t.nontrivial += 1;
                    let _ = guard(|| k.render(&pa));
                    if let Some(mut v) = check(&cfg, k, &pb, &xbd) {
                        if let Some(o) = v.case.as_object_mut() {
                            o.insert("after".into(), json!(xa.show()));
                        }
                        run.report(v.attr("history", true));
                    }
                }
            }
        }
        t
    });
    // S7: environment faults.  Every rendering that takes a sink is run against a sink that refuses output at
    // EVERY point (byte budgets 0..len whole-fragment and torn, and every write_str call index): one deviation
    // from the fault-free environment per execution.  The faulted call itself must deliver a prefix and report the
    // error; then the history continues on the same thread with every rendering of a second decimal, judged as usual.
    let fa: Vec<Dec> = ["0", "7", "-42.50", "1e-9", "-1.2345678901234567890123456789e40", "12345678901234567890.12345", "5e25", "-0.000001234", "1000000000000000000000e-3"]
        .iter()
        .map(|t| expected_parse(t).expect("S7 operand"))
        .collect();
    let fb: Vec<Dec> = ["-42.50", "3", "0.00", "9.99e-20", "-123456789012345678901234567890e7"].iter().map(|t| expected_parse(t).expect("S7 operand")).collect();
    run.bound("S7_fault_histories", json!({"first_operands": fa.len(), "second_operands": fb.len(), "fault_points": "every byte budget 0..len (whole-fragment and torn) and every call index 0..min(len+1,24)"}));
    run.par("S7 renderings into failing sinks, then fault-free renderings", fa.len() * KINDS.len(), |i| {
        let mut t = Tally::default();
        let (a, k1) = (&fa[i / KINDS.len()], KINDS[i % KINDS.len()]);
        let pa = bd(a);
        let full = match guard(|| k1.render(&pa)) {
            Ok(s) => s,
            Err(_) => return t, // reported by S1..S5
        };
        if k1.render_into(&pa, &mut FaultyWriter::new(Fault::Bytes(usize::MAX))).is_none() {
            return t;
        }
        for fault in Fault::all(full.len()) {
            // each history runs on a fresh thread: per-thread state starts clean, so a recorded history replays
            let tt = std::thread::scope(|sc| {
                sc.spawn(|| {
                    let mut t = Tally::default();
                    let arm = || {
                        let mut w = FaultyWriter::new(fault);
                        let _ = guard(|| k1.render_into(&pa, &mut w));
                        w.failed
                    };
                    let h = json!({"x": a.show(), "render": k1.name(), "fault": fault.json()});
                    t.states += 1;
                    // the faulted call on a clean thread, and once more after itself
                    for again in [false, true] {
                        t.transitions += 1;
                        if let Some(mut v) = faulted_render(k1, a, &pa, fault, &full) {
                            if again {
                                if let Some(o) = v.case.as_object_mut() {
                                    o.insert("after_fault".into(), h.clone());
                                }
                            }
                            run.report(v);
                        }
                    }
                    for b in fb.iter() {
                        let pb = bd(b);
                        for k2 in KINDS {
                            // re-arm the fault before every continuation: a later fault-free call may repair the state
                            let failed = arm();
                            t.transitions += 2;
                            if failed {
                                t.nontrivial += 1;
                            }
                            if let Some(mut v) = check(&cfg, k2, &pb, b) {
                                if let Some(o) = v.case.as_object_mut() {
                                    o.insert("after_fault".into(), h.clone());
                                }
                                run.report(v.attr("history", true).attr("fault", true));
                            }
                        }
                    }
                    t
                })
                .join()
                .expect("S7 history thread")
            });
            t.merge(&tt);
        }
        t
    });
    let _ = num_bigint::BigInt::zero();
    // the whole exploration once more against the subject built under a non-default compile-time configuration
    // (mc/variants/cfg_alt/build.env: HalfUp, precision 34, Display thresholds 3 / 9, padding limit 50)
    run.bound("build_variants", "default configuration (this process) + cfg_alt (child process, same domain)");
    run.variant("cfg_alt");
    run.finish();
}
