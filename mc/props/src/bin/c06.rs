//! C06 — rounding to a scale obeys each of the seven rounding modes.
use bigdecimal::num_bigint::Sign;
use bigdecimal::{BigDecimal, RoundingMode};
use num_bigint::BigInt;
use num_traits::{Signed, Zero};
use props::alpha::*;
use props::conv::*;
use props::engine::*;
use serde_json::{json, Value};
use spec::*;
use std::num::NonZeroU8;

const DEFAULT_MODE_NAME: &str = match option_env!("RUST_BIGDECIMAL_DEFAULT_ROUNDING_MODE") {
    Some(s) => s,
    None => "HalfEven",
};

#[derive(Clone, Copy, PartialEq, Eq, Debug)]
enum Op {
    WithScaleRound,
    WithScale,
    Round,
    RefToOwnedWithScale,
}
impl Op {
    fn name(self) -> &'static str {
        match self {
            Op::WithScaleRound => "with_scale_round",
            Op::WithScale => "with_scale",
            Op::Round => "round",
            Op::RefToOwnedWithScale => "to_ref().to_owned_with_scale",
        }
    }
    fn from_name(s: &str) -> Op {
        [Op::WithScaleRound, Op::WithScale, Op::Round, Op::RefToOwnedWithScale].into_iter().find(|o| o.name() == s).expect("unknown op")
    }
}

fn case_json(op: Op, x: &Dec, t: i64, m: Mode) -> Value {
    json!({"op": op.name(), "x": x.show(), "target_scale": t, "mode": m.name()})
}

/// one execution: x rounded to scale t under mode m through `op`
fn check(op: Op, xb: &BigDecimal, x: &Dec, t: i64, m: Mode) -> Option<Violation> {
    let site = match op {
        Op::WithScaleRound => "BigDecimal::with_scale_round",
        Op::WithScale => "BigDecimal::with_scale",
        Op::Round => "BigDecimal::round",
        Op::RefToOwnedWithScale => "BigDecimalRef::to_owned_with_scale",
    };
    let want = round_to_scale(&x.n, x.s, t as i128, m);
    let got = guard(|| match op {
        Op::WithScaleRound => xb.with_scale_round(t, rm(m)),
        Op::WithScale => xb.with_scale(t),
        Op::Round => xb.round(t),
        Op::RefToOwnedWithScale => xb.to_ref().to_owned_with_scale(t),
    });
    let mk = |class: &str, obs: String| {
        Violation::new(site, class, case_json(op, x, t, m), format!("{}e{}", want, -t), obs)
            .attr("mode", m.name())
            .attr("sign", if x.n.is_negative() { "-" } else if x.n.is_zero() { "0" } else { "+" })
            .attr("digits", ndigits(&x.n))
            .attr("extending", t as i128 >= x.s)
    };
    match got {
        Err(p) => Some(mk("panic", p)),
        Ok(r) => {
            let (rn, rs) = r.as_bigint_and_exponent();
            if rs != t {
                Some(mk("wrong_scale", format!("{}e{}", rn, -rs)))
            } else if rn != want {
                Some(mk("wrong_value", format!("{}e{}", rn, -rs)))
            } else {
                None
            }
        }
    }
}

fn check_pair(m: Mode, sign: Sign, l: u8, r: u8, tz: bool) -> Option<Violation> {
    // the number l.r[tail] rounded to an integer; tail is zero iff tz
    let mut n = BigInt::from(l as i32 * 100 + r as i32 * 10 + if tz { 0 } else { 1 });
    if sign == Sign::Minus {
        n = -n;
    }
    // NoSign is treated like Plus by the table (the sign only matters for Floor/Ceiling)
    let want = round_div(&n, &BigInt::from(100), m).abs();
    let got = guard(|| rm(m).round_pair(sign, (l, r), tz));
    let case = json!({"op": "round_pair", "mode": m.name(), "sign": format!("{:?}", sign), "pair": [l, r], "trailing_zeros": tz});
    match got {
        Err(p) => Some(Violation::new("RoundingMode::round_pair", "panic", case, want.to_string(), p).attr("mode", m.name())),
        Ok(g) if BigInt::from(g) != want => Some(Violation::new("RoundingMode::round_pair", "wrong_value", case, want.to_string(), g.to_string()).attr("mode", m.name())),
        _ => None,
    }
}

fn check_u32(m: Mode, sign: Sign, value: u32, at: u8, tz: bool) -> Option<Violation> {
    let mut n: BigInt = BigInt::from(value) * 10i32 + BigInt::from(if tz { 0 } else { 1 });
    if sign == Sign::Minus {
        n = -n;
    }
    let unit = pow10(at as u64);
    let want = round_div(&n, &(&unit * 10), m).abs() * &unit;
    let got = guard(|| rm(m).round_u32(NonZeroU8::new(at).unwrap(), sign, value, tz));
    let case = json!({"op": "round_u32", "mode": m.name(), "sign": format!("{:?}", sign), "value": value, "at_digit": at, "trailing_zeros": tz});
    match got {
        Err(p) => Some(Violation::new("RoundingMode::round_u32", "panic", case, want.to_string(), p).attr("mode", m.name())),
        Ok(g) if BigInt::from(g) != want => Some(Violation::new("RoundingMode::round_u32", "wrong_value", case, want.to_string(), g.to_string()).attr("mode", m.name())),
        _ => None,
    }
}

fn sign_from(s: &str) -> Sign {
    match s {
        "Minus" => Sign::Minus,
        "Plus" => Sign::Plus,
        _ => Sign::NoSign,
    }
}

fn replay(case: &Value) -> Vec<Violation> {
    let op = case["op"].as_str().unwrap();
    let m = Mode::from_name(case["mode"].as_str().unwrap()).unwrap();
    let r = match op {
        "round_pair" => check_pair(m, sign_from(case["sign"].as_str().unwrap()), case["pair"][0].as_u64().unwrap() as u8, case["pair"][1].as_u64().unwrap() as u8, case["trailing_zeros"].as_bool().unwrap()),
        "round_u32" => check_u32(m, sign_from(case["sign"].as_str().unwrap()), case["value"].as_u64().unwrap() as u32, case["at_digit"].as_u64().unwrap() as u8, case["trailing_zeros"].as_bool().unwrap()),
        _ if case.get("far").is_some() => {
            let x = jd(&case["x"]);
            let target: i64 = case["target_scale"].as_str().unwrap().parse().unwrap();
            let neg = x.n.sign() == Sign::Minus;
            let unit = match m {
                Mode::Up => 1,
                Mode::Ceiling => !neg as i64,
                Mode::Floor => neg as i64,
                _ => 0,
            };
            let want = BigInt::from(if neg { -unit } else { unit });
            match guard(|| bd(&x).with_scale_round(target, rm(m))) {
                Ok(r) if r.as_bigint_and_exponent() == (want.clone(), target) => None,
                Ok(r) => Some(Violation::new("BigDecimal::with_scale_round", "wrong_value", case.clone(), want.to_string(), show(&r))),
                Err(p) => Some(Violation::new("BigDecimal::with_scale_round", "panic", case.clone(), want.to_string(), p)),
            }
        }
        _ => {
            let x = jd(&case["x"]);
            let xb = bd(&x);
            if let Some(a) = case.get("after") {
                // a recorded history: the earlier call first
                let (t1, m1) = (a["target_scale"].as_i64().unwrap(), Mode::from_name(a["mode"].as_str().unwrap()).unwrap());
                let _ = guard(|| xb.with_scale_round(t1, rm(m1)));
            }
            check(Op::from_name(op), &xb, &x, case["target_scale"].as_i64().unwrap(), m).map(|mut v| {
                if let (Some(a), Some(o)) = (case.get("after"), v.case.as_object_mut()) {
                    o.insert("after".into(), a.clone());
                }
                v
            })
        }
    };
    r.into_iter().collect()
}

/// all rounding executions for one decimal: every target within 4 of either end of the digits
fn sweep_decimal(run: &Run, x: &Dec, default_mode: Mode, t: &mut Tally) {
    let xb = bd(x);
    let d = ndigits(&x.n) as i64;
    let s = x.s as i64;
    t.states += 1;
    for target in (s - d - 4)..=(s + 4) {
        for m in MODES {
            t.transitions += 1;
            let inexact = target < s && !(&x.n % pow10((s - target) as u64)).is_zero();
            if inexact {
                t.nontrivial += 1;
            }
            if let Some(v) = check(Op::WithScaleRound, &xb, x, target, m) {
                run.report(v);
            }
        }
        t.transitions += 3;
        if let Some(v) = check(Op::WithScale, &xb, x, target, Mode::Down) {
            run.report(v);
        }
        if let Some(v) = check(Op::RefToOwnedWithScale, &xb, x, target, Mode::Down) {
            run.report(v);
        }
        if let Some(v) = check(Op::Round, &xb, x, target, default_mode) {
            run.report(v);
        }
    }
    run.sample(|| case_json(Op::WithScaleRound, x, s - 1, Mode::HalfEven));
}

fn main() {
    let (run, inv) = Run::start("C06");
    if let Invocation::Replay(f) = &inv {
        run.replay(f, replay);
    }
    let tier = run.tier();
    let default_mode = Mode::from_name(DEFAULT_MODE_NAME).expect("unknown configured default rounding mode");
    // the subject must report the configured default too (C20 checks this across configurations)
    assert_eq!(mode_of(RoundingMode::default()), default_mode, "harness and subject disagree on the configured default mode");
    let nmax: i64 = tier.pick(99_999, 1_999_999);
    run.bound("unscaled_max", nmax);
    run.bound("scales", "-3..=8");
    run.bound("targets", "from 4 left of the leading digit to 4 right of the last digit");
    run.bound("modes", 7);
    run.rule("product: every decimal (|unscaled| <= bound, scale -3..8) x every target scale within 4 of either end of its digits x 7 modes through with_scale_round, plus with_scale (=Down) and round (=default mode) per target; non-trivial = the target drops at least one non-zero digit (a rounding decision is made); cases are distinct by construction");
    run.assume("num-bigint integer arithmetic and decimal printing are correct (shared with the subject)");
    run.assume("one build profile: opt-level 2 with overflow checks and debug assertions on for the subject");

    // S1: small-scope product; one item = one unscaled magnitude (both signs, all 12 scales)
    run.par("S1 small-scope product", (nmax + 1) as usize, |i| {
        let mut t = Tally::default();
        for sign in [1i64, -1] {
            if i == 0 && sign < 0 {
                continue;
            }
            for s in -3i64..=8 {
                let x = Dec::new(i as i64 * sign, s as i128);
                sweep_decimal(&run, &x, default_mode, &mut t);
            }
        }
        t
    });

    // S2: the digit-pair primitive, all 7 x 3 x 100 x 2 = 4200 arguments
    run.par("S2 round_pair table", 7, |mi| {
        let m = MODES[mi];
        let mut t = Tally::default();
        for sign in [Sign::Plus, Sign::Minus, Sign::NoSign] {
            for l in 0..10u8 {
                for r in 0..10u8 {
                    for tz in [true, false] {
                        t.states += 1;
                        t.transitions += 1;
                        if let Some(v) = check_pair(m, sign, l, r, tz) {
                            run.report(v);
                        }
                    }
                }
            }
        }
        run.sample(|| json!({"op": "round_pair", "mode": m.name(), "sign": "Minus", "pair": [2, 5], "trailing_zeros": true}));
        t
    });

    // S3: round_u32 as a client of the same table: values < 10^6 (quick: < 10^5), digit index 1..5
    let vmax: u32 = tier.pick(20_000, 1_000_000);
    run.bound("round_u32_value_max", vmax);
    run.par("S3 round_u32", (vmax / 1000) as usize, |blk| {
        let mut t = Tally::default();
        for value in (blk as u32 * 1000)..((blk as u32 + 1) * 1000) {
            t.states += 1;
            for at in 1..=5u8 {
                for sign in [Sign::Plus, Sign::Minus] {
                    for tz in [true, false] {
                        for m in MODES {
                            t.transitions += 1;
                            if let Some(v) = check_u32(m, sign, value, at, tz) {
                                run.report(v);
                            }
                        }
                    }
                }
            }
        }
        t
    });

    // S4: long operands x rounding positions near either end and at every boundary of a 9-run
    let lens: &[usize] = if tier.is_thorough() { &LONG_LENS_THOROUGH } else { &LONG_LENS_QUICK };
    let mut longs: Vec<Dec> = vec![];
    for (_, n) in long_ints(lens, run.seed()) {
        for s in [0i128, -7, 33] {
            longs.push(Dec { n: n.clone(), s });
            longs.push(Dec { n: -n.clone(), s });
        }
    }
    // carry chains that add a digit: d 9...9 5 0..0 and ties in the middle
    for l in [5usize, 19, 20, 40, 100] {
        for tail in ["5", "50", "49", "51", "500000000000000000000", "499999999999999999999", "500000000000000000001"] {
            let body = "9".repeat(l);
            for s in [0i128, 4] {
                longs.push(Dec { n: big(&format!("{}{}", body, tail)), s });
                longs.push(Dec { n: -big(&format!("{}{}", body, tail)), s });
                longs.push(Dec { n: big(&format!("12{}{}", body, tail)), s });
                longs.push(Dec { n: big(&format!("1{}8{}", "0".repeat(l), tail)), s });
            }
        }
    }
    run.bound("long_operand_lengths", json!(lens));
    run.par("S4 long operands", longs.len(), |i| {
        let x = &longs[i];
        let xb = bd(x);
        let mut t = Tally::default();
        t.states += 1;
        let digits = x.n.magnitude().to_str_radix(10);
        let d = digits.len() as i64;
        let s = x.s as i64;
        // candidate numbers of dropped digits k (target = s - k)
        let mut ks: Vec<i64> = vec![];
        for k in 0..=4 {
            ks.push(k);
            ks.push(d - k);
            ks.push(d + k);
            ks.push(-k);
        }
        // boundaries of runs of 9s and 0s (as counted from the right)
        let b = digits.as_bytes();
        for j in 1..b.len() {
            if (b[j] == b'9') != (b[j - 1] == b'9') || (b[j] == b'0') != (b[j - 1] == b'0') {
                let k = d - j as i64;
                ks.extend([k - 1, k, k + 1]);
            }
        }
        ks.sort();
        ks.dedup();
        for k in ks {
            if k > d + 4 || k < -4 {
                continue;
            }
            let target = s - k;
            for m in MODES {
                t.transitions += 1;
                if k > 0 {
                    t.nontrivial += 1;
                }
                if let Some(v) = check(Op::WithScaleRound, &xb, x, target, m) {
                    run.report(v);
                }
            }
            t.transitions += 3;
            if let Some(v) = check(Op::WithScale, &xb, x, target, Mode::Down) {
                run.report(v);
            }
            if let Some(v) = check(Op::RefToOwnedWithScale, &xb, x, target, Mode::Down) {
                run.report(v);
            }
            if let Some(v) = check(Op::Round, &xb, x, target, default_mode) {
                run.report(v);
            }
        }
        run.sample(|| case_json(Op::WithScaleRound, x, s - d + 1, Mode::HalfUp));
        t
    });

    // S6: sparse tails: head | deciding digit | zeros with one non-zero digit at every position
    // S6b: the five decision shapes (10..01, 49..9, 50..0, 50..01, 9..9) of the dropped digits at EVERY dropped
    // length 1..=L
    let lmax6: usize = tier.pick(2600, 10000);
    run.bound("S6b_dropped_lengths", format!("1..={}", lmax6));
    // ... and a ladder of far longer dropped parts (sizes at which a digit-count ESTIMATE first goes wrong are set
    // by the estimate's error, not by any literal in the code)
    let ladder: Vec<usize> = tier.pick(vec![3000, 5000, 7100, 8000, 10000, 12000, 16500, 20000], vec![12000, 16500, 20000, 25000, 33000, 50000, 70000, 100000]);
    run.bound("lmax6_ladder", json!(ladder));
    run.par("S6b decision shapes at every dropped length", lmax6 + ladder.len(), |li| {
        let l = if li < lmax6 { li + 1 } else { ladder[li - lmax6] };
        let mut t = Tally::default();
        for tail in decision_tails(l) {
            for (head, sign) in [("7", 1), ("86", -1)] {
                for s in [l as i128, 3] {
                    let x = Dec { n: big(&format!("{}{}", head, tail)) * sign, s };
                    let xb = bd(&x);
                    t.states += 1;
                    let target = x.s as i64 - l as i64;
                    for m in MODES {
                        t.transitions += 1;
                        t.nontrivial += 1;
                        if let Some(v) = check(Op::WithScaleRound, &xb, &x, target, m) {
                            run.report(v);
                        }
                    }
                    t.transitions += 1;
                    if let Some(v) = check(Op::Round, &xb, &x, target, default_mode) {
                        run.report(v);
                    }
                    // truncating re-scale and the by-reference form drop the same digits
                    t.transitions += 2;
                    if let Some(v) = check(Op::WithScale, &xb, &x, target, Mode::Down) {
                        run.report(v);
                    }
                    if let Some(v) = check(Op::RefToOwnedWithScale, &xb, &x, target, Mode::Down) {
                        run.report(v);
                    }
                }
            }
        }
        // the smallest and largest values of each length (10..0, 10..01, 9..9) cut down to their LEADING digit: the
        // place where a digit-count bound derived from the bit length is tight
        for digits in [format!("1{}", "0".repeat(l)), format!("1{}1", "0".repeat(l - 1)), "9".repeat(l + 1)] {
            for sign in [1, -1] {
                let x = Dec { n: big(&digits) * sign, s: 2 };
                let xb = bd(&x);
                t.states += 1;
                for target in [2 - l as i64, 1 - l as i64] {
                    t.transitions += 3;
                    t.nontrivial += 1;
                    for (op, m) in [(Op::WithScale, Mode::Down), (Op::RefToOwnedWithScale, Mode::Down), (Op::WithScaleRound, Mode::HalfEven)] {
                        if let Some(v) = check(op, &xb, &x, target, m) {
                            run.report(v);
                        }
                    }
                }
            }
        }
        t
    });
    let tail_lens: Vec<usize> = if tier.is_thorough() { (0..=72).chain([100, 127, 128, 129, 255, 256, 257, 1023, 1024, 1025, 1100, 1500, 2100, 4100]).collect() } else { (0..=40).chain([63, 64, 65, 257, 1100, 1500]).collect() };
    let tails = sparse_tails(&tail_lens);
    run.bound("S6_tail_lengths", json!(tail_lens));
    run.par("S6 sparse tails (one non-zero digit at every position)", tails.len(), |i| {
        let mut t = Tally::default();
        for head in ["1", "2", "19", "99"] {
            for d0 in ['0', '5', '4', '9'] {
                let digits = format!("{}{}{}", head, d0, tails[i]);
                let dropped = 1 + tails[i].len() as i64;
                for sign in [1, -1] {
                    for s in [0i128, dropped as i128, 3] {
                        let x = Dec { n: big(&digits) * sign, s };
                        let xb = bd(&x);
                        t.states += 1;
                        // round at the position right after the head, and one digit to either side
                        for k in [dropped, dropped + 1, dropped - 1] {
                            if k < 1 {
                                continue;
                            }
                            let target = x.s as i64 - k;
                            for m in MODES {
                                t.transitions += 1;
                                t.nontrivial += 1;
                                if let Some(v) = check(Op::WithScaleRound, &xb, &x, target, m) {
                                    run.report(v);
                                }
                            }
                            t.transitions += 1;
                            if let Some(v) = check(Op::Round, &xb, &x, target, default_mode) {
                                run.report(v);
                            }
                        }
                    }
                }
            }
        }
        t
    });

    // S7: word-limit coefficients x every target inside the digits
    let wl = word_limit_ints();
    run.par("S7 word-limit coefficients", wl.len(), |i| {
        let mut t = Tally::default();
        for s in [0i128, 6] {
            let x = Dec { n: wl[i].clone(), s };
            sweep_decimal(&run, &x, default_mode, &mut t);
            let xb = bd(&x);
            let d = ndigits(&x.n) as i64;
            for k in 1..d {
                for m in MODES {
                    t.transitions += 1;
                    if let Some(v) = check(Op::WithScaleRound, &xb, &x, s as i64 - k, m) {
                        run.report(v);
                    }
                }
            }
        }
        t
    });
    // S10: structured coefficients (word limits, products crossing word limits, digit patterns at every length,
    // carry chains, all-ones words) with k written-out trailing zeros x every target inside the digits
    let st = structured_ints(tier.pick(40, 120), tier.pick(24, 60), run.seed());
    run.bound("S10_structured_integers", st.len());
    run.par("S10 structured coefficients with written-out zeros", st.len(), |i| {
        let mut t = Tally::default();
        for x in structured_decimals(&st[i..=i], &[2], &[0, 1, 9, 12, 20]) {
            let xb = bd(&x);
            let d = ndigits(&x.n) as i64;
            t.states += 1;
            for k in 1..d.min(64) {
                for m in MODES {
                    t.transitions += 1;
                    t.nontrivial += 1;
                    if let Some(v) = check(Op::WithScaleRound, &xb, &x, x.s as i64 - k, m) {
                        run.report(v);
                    }
                }
            }
        }
        t
    });
    // S11: re-scaling across the whole gap alphabet in both directions (extension by g digits must keep the value;
    // dropping g written-out digits must give back the coefficient), g over every gap 0..300 and both sides of
    // each power-of-ten algorithm switch (19/20, 590, 16*590 = 9440, 65536)
    let g11 = gaps();
    run.bound("S11_gaps", json!(g11));
    run.par("S11 extension and truncation across the gap alphabet", g11.len(), |gi| {
        let g = g11[gi] as i128;
        let mut t = Tally::default();
        for n in [BigInt::from(1), BigInt::from(-15), BigInt::from(7), pow10(19) - 1, BigInt::from(-3) - pow10(20)] {
            for s in [0i128, 3, -2] {
                let x = Dec { n: n.clone(), s };
                let xb = bd(&x);
                t.states += 1;
                for m in MODES {
                    t.transitions += 1;
                    t.nontrivial += 1;
                    if let Some(v) = check(Op::WithScaleRound, &xb, &x, (s + g) as i64, m) {
                        run.report(v);
                    }
                }
                t.transitions += 1;
                if let Some(v) = check(Op::WithScale, &xb, &x, (s + g) as i64, Mode::Down) {
                    run.report(v);
                }
                // the same value with g written-out zeros, brought back
                let y = Dec { n: &n * pow10(g as u64) + if g > 0 { 1 } else { 0 }, s: s + g };
                let yb = bd(&y);
                for m in MODES {
                    t.transitions += 1;
                    if let Some(v) = check(Op::WithScaleRound, &yb, &y, s as i64, m) {
                        run.report(v);
                    }
                }
                t.transitions += 1;
                if let Some(v) = check(Op::WithScale, &yb, &y, s as i64, Mode::Down) {
                    run.report(v);
                }
            }
        }
        t
    });
    // S12: call histories of length two: every ordered pair of (target scale, mode) settings inside the digits of each
    // operand; the functions are pure, so the second call must not depend on the first
    let hx: Vec<Dec> = vec![Dec::new(12345678, 3), Dec::new(-99995, 2), Dec::new(25, 1), Dec::new(1500001, 6), Dec { n: big(&filler_digits(run.seed(), 40, 40)), s: 17 }, Dec { n: pow10(30) - 1, s: 4 }, Dec::new(-14999, 0), Dec::new(5, 1)];
    run.bound("S12_history_operands", hx.len());
    run.par("S12 call histories of length two", hx.len(), |i| {
        let mut t = Tally::default();
        let x = &hx[i];
        let xb = bd(x);
        let d = ndigits(&x.n) as i64;
        let targets: Vec<i64> = ((x.s as i64 - d.min(6))..=(x.s as i64 + 1)).collect();
        t.states += 1;
        for &t1 in targets.iter() {
            for m1 in MODES {
                for &t2 in targets.iter() {
                    for m2 in MODES {
                        t.transitions += 2;
                        t.nontrivial += 1;
                        let _ = guard(|| xb.with_scale_round(t1, rm(m1)));
                        if let Some(mut v) = check(Op::WithScaleRound, &xb, x, t2, m2) {
                            if let Some(o) = v.case.as_object_mut() {
                                o.insert("after".into(), json!({"target_scale": t1, "mode": m1.name()}));
                            }
                            run.report(v.attr("history", true));
                        }
                    }
                }
            }
        }
        t
    });
    // S8: carry chains of every length behind every prefix length
    let cc = carry_chains(tier.pick(20, 40), tier.pick(24, 70));
    run.bound("S8_carry_chains", cc.len());
    run.par("S8 carry chains", cc.len(), |i| {
        let mut t = Tally::default();
        for sign in [1, -1] {
            let x = Dec { n: big(&cc[i]) * sign, s: 3 };
            let xb = bd(&x);
            t.states += 1;
            for k in [1i64, 2] {
                for m in MODES {
                    t.transitions += 1;
                    t.nontrivial += 1;
                    if let Some(v) = check(Op::WithScaleRound, &xb, &x, 3 - k, m) {
                        run.report(v);
                    }
                }
            }
        }
        t
    });
    // S9: targets astronomically far left of the digits (scale distances around 2^31, 2^32, 2^33, 2^62):
    // the result is 0 or one unit, decided by mode and sign alone (the model needs no power of ten there)
    run.seq("S9 extreme scale distances", || {
        let mut t = Tally::default();
        let mut dists: Vec<i128> = vec![];
        for e in [31u32, 32, 33, 40, 62] {
            for d in -2i128..=21 {
                dists.push((1i128 << e) + d);
            }
        }
        for n in [1i64, -1, 15, -15, 12345, -99999, 5, 50] {
            for base_scale in [0i128, 7, -3, 4294967297] {
                let x = Dec::new(n, base_scale);
                let xb = bd(&x);
                t.states += 1;
                for dist in dists.iter() {
                    let target = base_scale - dist;
                    if target < i64::MIN as i128 {
                        continue;
                    }
                    for m in MODES {
                        t.transitions += 1;
                        t.nontrivial += 1;
                        let neg = n < 0;
                        let unit = match m {
                            Mode::Up => 1,
                            Mode::Ceiling => !neg as i64,
                            Mode::Floor => neg as i64,
                            _ => 0,
                        };
                        let want = BigInt::from(if neg { -unit } else { unit });
                        let got = guard(|| xb.with_scale_round(target as i64, rm(m)));
                        let case = json!({"op": "with_scale_round", "x": x.show(), "target_scale": target.to_string(), "mode": m.name(), "far": true});
                        match got {
                            Ok(r) => {
                                let (rn, rs) = r.as_bigint_and_exponent();
                                if rn != want || rs as i128 != target {
                                    run.report(Violation::new("BigDecimal::with_scale_round", "wrong_value", case, format!("{}e{}", want, -target), format!("{}e{}", rn, -(rs as i128))).attr("mode", m.name()));
                                }
                            }
                            Err(p) => run.report(Violation::new("BigDecimal::with_scale_round", "panic", case, format!("{}e{}", want, -target), p).attr("mode", m.name())),
                        }
                    }
                }
            }
        }
        t
    });

    // S5: zero at any scale stays zero with the requested scale
    run.seq("S5 zeros", || {
        let mut t = Tally::default();
        for s in [-40i64, -3, 0, 5, 1000] {
            let x = Dec::new(0, s as i128);
            let xb = bd(&x);
            t.states += 1;
            for target in [-50i64, -1, 0, 1, 7, 2000] {
                for m in MODES {
                    t.transitions += 1;
                    if let Some(v) = check(Op::WithScaleRound, &xb, &x, target, m) {
                        run.report(v);
                    }
                }
            }
        }
        let _ = Zero::is_zero(&BigInt::from(0));
        t
    });
    // the whole exploration once more against the subject built under a non-default compile-time configuration
    // (mc/variants/cfg_alt/build.env: HalfUp, precision 34, Display thresholds 3 / 9, padding limit 50)
    run.bound("build_variants", "default configuration (this process) + cfg_alt (child process, same domain)");
    run.variant("cfg_alt");
    run.finish();
}
