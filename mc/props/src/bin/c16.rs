//! C16 — precision formatting rounds correctly; flags never alter the digits.
use bigdecimal::BigDecimal;
use num_bigint::BigInt;
use num_traits::{Signed, Zero};
use props::alpha::*;
use props::conv::*;
use props::engine::*;
use props::fmt_templates::{templates, Template};
use serde_json::{json, Value};
use spec::numeral::recognise;
use spec::*;

struct Cfg {
    mode: Mode,
    padding: u64,
}
fn cfg() -> Cfg {
    Cfg {
        mode: Mode::from_name(option_env!("RUST_BIGDECIMAL_DEFAULT_ROUNDING_MODE").unwrap_or("HalfEven")).unwrap(),
        padding: option_env!("RUST_BIGDECIMAL_FMT_MAX_INTEGER_PADDING").unwrap_or("1000").parse().unwrap(),
    }
}

#[derive(Clone, Copy, PartialEq, Eq, Debug)]
enum Kind {
    Fixed,
    LowerExp,
    UpperExp,
}
impl Kind {
    fn name(self) -> &'static str {
        match self {
            Kind::Fixed => "{:.N}",
            Kind::LowerExp => "{:.Ne}",
            Kind::UpperExp => "{:.NE}",
        }
    }
    fn from_name(s: &str) -> Kind {
        [Kind::Fixed, Kind::LowerExp, Kind::UpperExp].into_iter().find(|k| k.name() == s).unwrap()
    }
    fn render(self, x: &BigDecimal, n: usize, via_ref: bool) -> String {
        match (self, via_ref) {
            (Kind::Fixed, false) => format!("{:.*}", n, x),
            (Kind::LowerExp, false) => format!("{:.*e}", n, x),
            (Kind::UpperExp, false) => format!("{:.*E}", n, x),
            (Kind::Fixed, true) => format!("{:.*}", n, x.to_ref()),
            (Kind::LowerExp, true) => format!("{:.*e}", n, x.to_ref()),
            (Kind::UpperExp, true) => format!("{:.*E}", n, x.to_ref()),
        }
    }
}

impl Kind {
    fn render_into(self, x: &BigDecimal, n: usize, via_ref: bool, w: &mut props::faulty::FaultyWriter) -> std::fmt::Result {
        use std::fmt::Write as _;
        match (self, via_ref) {
            (Kind::Fixed, false) => write!(w, "{:.*}", n, x),
            (Kind::LowerExp, false) => write!(w, "{:.*e}", n, x),
            (Kind::UpperExp, false) => write!(w, "{:.*E}", n, x),
            (Kind::Fixed, true) => write!(w, "{:.*}", n, x.to_ref()),
            (Kind::LowerExp, true) => write!(w, "{:.*e}", n, x.to_ref()),
            (Kind::UpperExp, true) => write!(w, "{:.*E}", n, x.to_ref()),
        }
    }
}

fn clip(s: &str) -> String {
    if s.chars().count() > 90 {
        let head: String = s.chars().take(45).collect();
        let tail: String = s.chars().rev().take(30).collect::<Vec<_>>().into_iter().rev().collect();
        format!("{}…{} ({} chars)", head, tail, s.chars().count())
    } else {
        s.to_string()
    }
}

fn check(cfg: &Cfg, kind: Kind, xb: &BigDecimal, x: &Dec, n: usize, via_ref: bool) -> Option<Violation> {
    let case = json!({"kind": kind.name(), "x": x.show(), "N": n, "via_ref": via_ref});
    let mk = |class: &str, exp: String, obs: String| {
        Violation::new(&format!("format {}", kind.name()), class, case.clone(), exp, obs).attr("kind", kind.name()).attr("N", n as u64).attr("scale", x.s.to_string()).attr("zero", x.n.is_zero())
    };
    let text = match guard(|| kind.render(xb, n, via_ref)) {
        Ok(t) => t,
        Err(p) => return Some(mk("panic", "a rendering".into(), p)),
    };
    let num = match recognise(&text) {
        Some(nm) if !nm.had_underscore => nm,
        _ => return Some(mk("not_a_numeral", "a numeral".into(), format!("{:?}", clip(&text)))),
    };
    let val = match num.to_dec() {
        Some(v) => v,
        None => return Some(mk("not_a_numeral", "a numeral with a 64-bit scale".into(), format!("{:?}", clip(&text)))),
    };
    match kind {
        Kind::Fixed => {
            let want = Dec { n: round_to_scale(&x.n, x.s, n as i128, cfg.mode), s: n as i128 };
            if x.s <= 0 {
                // an integer: padded with zeros unless the padding would exceed the limit
                let zeros = (-x.s) as u64 + n as u64;
                let total = zeros + if n > 0 { 1 } else { 0 };
                let must_pad = total <= cfg.padding;
                let may_pad = zeros <= cfg.padding; // the '.' is not a zero: either reading of the limit is accepted there
                let padded = num.exp.is_none() && num.frac_digits.len() == n;
                if !val.eq_val(x) {
                    return Some(mk("wrong_value", format!("the exact value {}", x.show()), format!("{:?}", clip(&text))));
                }
                if must_pad && !padded {
                    return Some(mk("not_padded", format!("{} digits after the point, no exponent", n), format!("{:?}", clip(&text))));
                }
                if !may_pad && padded && zeros > 0 {
                    return Some(mk("padded_beyond_limit", format!("unpadded form (padding {} > limit {})", zeros, cfg.padding), format!("{} characters", text.len())));
                }
                return None;
            }
            if num.exp.is_some() || num.frac_digits.len() != n {
                return Some(mk("wrong_shape", format!("exactly {} digits after the point, no exponent", n), format!("{:?}", clip(&text))));
            }
            if !val.eq_val(&want) {
                return Some(mk("wrong_value", format!("{} (rounded {})", want.show(), cfg.mode.name()), format!("{:?}", clip(&text))));
            }
            None
        }
        Kind::LowerExp | Kind::UpperExp => {
            // N+1 significant digits and an exponent
            let marker = if kind == Kind::LowerExp { 'e' } else { 'E' };
            if num.exp.is_none() || num.exp_char != Some(marker) || num.int_digits.len() != 1 || num.frac_digits.len() != n {
                return Some(mk("wrong_shape", format!("d.{} digits {} exponent", n, marker), format!("{:?}", clip(&text))));
            }
            let want = round_to_prec(&x.n, x.s, n as u64 + 1, cfg.mode);
            if !val.eq_val(&want) {
                return Some(mk("wrong_value", format!("{} (rounded {})", want.show(), cfg.mode.name()), format!("{:?}", clip(&text))));
            }
            if !x.n.is_zero() && num.int_digits == "0" {
                return Some(mk("wrong_shape", "a non-zero leading digit".into(), format!("{:?}", clip(&text))));
            }
            None
        }
    }
}

/// std's padding semantics applied to the unflagged rendering
fn expected_flagged(base: &str, t: &Template, width: usize) -> String {
    let (neg, digits) = match base.strip_prefix('-') {
        Some(d) => (true, d),
        None => (false, base),
    };
    let sign = if neg {
        "-"
    } else if t.plus {
        "+"
    } else {
        ""
    };
    let len = sign.chars().count() + digits.chars().count();
    if width <= len {
        return format!("{}{}", sign, digits);
    }
    let pad = width - len;
    if t.zero {
        return format!("{}{}{}", sign, "0".repeat(pad), digits);
    }
    let fill = t.fill.unwrap_or(' ');
    let f = |k: usize| fill.to_string().repeat(k);
    match t.align.unwrap_or('>') {
        '<' => format!("{}{}{}", sign, digits, f(pad)),
        '^' => format!("{}{}{}{}", f(pad / 2), sign, digits, f(pad - pad / 2)),
        _ => format!("{}{}{}", f(pad), sign, digits),
    }
}

fn check_flags(ts: &[Template], xb: &BigDecimal, x: &Dec, p: usize, t: &mut Tally) -> Vec<Violation> {
    let mut out = vec![];
    // unflagged renderings per (kind, has_prec): the template with no flags at width 0
    for tpl in ts.iter() {
        let base_tpl = ts.iter().find(|b| b.kind == tpl.kind && b.has_prec == tpl.has_prec && b.fill.is_none() && b.align.is_none() && !b.plus && !b.zero).unwrap();
        let base = match guard(|| (base_tpl.f)(xb, 0, p)) {
            Ok(b) => b,
            Err(e) => {
                out.push(Violation::new("format flags", "panic", json!({"spec": base_tpl.spec, "x": x.show(), "width": 0, "p": p}), "a rendering", e));
                continue;
            }
        };
        let blen = base.chars().count() + if tpl.plus && !base.starts_with('-') { 1 } else { 0 };
        for w in [0usize, 1, blen.saturating_sub(1), blen, blen + 1, blen + 7] {
            for via_ref in [false, true] {
                t.transitions += 1;
                let want = expected_flagged(&base, tpl, w);
                let got = guard(|| if via_ref { (tpl.fr)(xb.to_ref(), w, p) } else { (tpl.f)(xb, w, p) });
                let case = json!({"spec": tpl.spec, "x": x.show(), "width": w, "p": p, "via_ref": via_ref});
                match got {
                    Err(e) => out.push(Violation::new("format flags", "panic", case, want, e).attr("spec", tpl.spec)),
                    Ok(g) if g != want => out.push(Violation::new("format flags", "flags_changed_output", case, format!("{:?}", want), format!("{:?}", g)).attr("spec", tpl.spec)),
                    _ => {}
                }
            }
        }
    }
    out
}

fn replay(cfg: &Cfg, case: &Value) -> Vec<Violation> {
    let x = jd(&case["x"]);
    if let Some(spec) = case.get("spec") {
        let ts: Vec<Template> = templates();
        let keep: Vec<Template> = ts.into_iter().filter(|t| t.spec == spec.as_str().unwrap() || (t.fill.is_none() && t.align.is_none() && !t.plus && !t.zero)).collect();
        return check_flags(&keep, &bd(&x), &x, case["p"].as_u64().unwrap() as usize, &mut Tally::default()).into_iter().filter(|v| v.case["spec"] == *spec && v.case["width"] == case["width"]).collect();
    }
    let xb = bd(&x);
    if let Some(f) = case.get("faulted") {
        use props::faulty::{Fault, FaultyWriter};
        let (k1, n1, via) = (Kind::from_name(case["kind"].as_str().unwrap()), case["N"].as_u64().unwrap() as usize, case["via_ref"].as_bool().unwrap());
        let full = k1.render(&xb, n1, via);
        let fault = Fault::from_json(f);
        let mut last = None;
        for _ in 0..(if case.get("after_fault").is_some() { 2 } else { 1 }) {
            let mut w = FaultyWriter::new(fault);
            let r = guard(|| k1.render_into(&xb, n1, via, &mut w));
            last = Some(match r {
                Err(p) => Some(p),
                Ok(res) => {
                    if !full.starts_with(&w.written) || (w.failed && res.is_ok()) || (!w.failed && (res.is_err() || w.written != full)) {
                        Some(format!("{:?} with {:?}", res, clip(&w.written)))
                    } else {
                        None
                    }
                }
            });
        }
        return last.flatten().map(|obs| Violation::new(&format!("faulted format {}", k1.name()), "faulted_call", case.clone(), "a prefix and Err iff the sink refused", obs)).into_iter().collect();
    }
    if let Some(h) = case.get("after_fault") {
        // a recorded history: an earlier formatting call whose sink failed at the recorded point
        let a = bd(&jd(&h["x"]));
        let mut w = props::faulty::FaultyWriter::new(props::faulty::Fault::from_json(&h["fault"]));
        let _ = guard(|| Kind::from_name(h["kind"].as_str().unwrap()).render_into(&a, h["N"].as_u64().unwrap() as usize, h["via_ref"].as_bool().unwrap(), &mut w));
        return check(cfg, Kind::from_name(case["kind"].as_str().unwrap()), &xb, &x, case["N"].as_u64().unwrap() as usize, case["via_ref"].as_bool().unwrap())
            .map(|mut v| {
                if let Some(o) = v.case.as_object_mut() {
                    o.insert("after_fault".into(), h.clone());
                }
                v
            })
            .into_iter()
            .collect();
    }
    if let Some(a) = case.get("after") {
        // a recorded history: the earlier formatting call first
        let n1 = a["N"].as_u64().unwrap() as usize;
        let _ = guard(|| format!("{:.*}", n1, xb));
        let _ = guard(|| format!("{:.*e}", n1, xb));
    }
    check(cfg, Kind::from_name(case["kind"].as_str().unwrap()), &xb, &x, case["N"].as_u64().unwrap() as usize, case["via_ref"].as_bool().unwrap())
        .map(|mut v| {
            if let (Some(a), Some(o)) = (case.get("after"), v.case.as_object_mut()) {
                o.insert("after".into(), a.clone());
            }
            v
        })
        .into_iter()
        .collect()
}

fn sweep(run: &Run, cfg: &Cfg, x: &Dec, ns: &[usize], t: &mut Tally) {
    let xb = bd(x);
    t.states += 1;
    for &n in ns {
        for k in [Kind::Fixed, Kind::LowerExp, Kind::UpperExp] {
            for via_ref in [false, true] {
                t.transitions += 1;
                if (k == Kind::Fixed && x.s > n as i128) || (k != Kind::Fixed && ndigits(&x.n) > n as u64 + 1) {
                    t.nontrivial += 1;
                }
                if let Some(v) = check(cfg, k, &xb, x, n, via_ref) {
                    run.report(v);
                }
            }
        }
    }
}

fn main() {
    let (run, inv) = Run::start("C16");
    let cfg = cfg();
    if let Invocation::Replay(f) = &inv {
        run.replay(f, |c| replay(&cfg, c));
    }
    let tier = run.tier();
    run.rule("every decimal of each sub-domain x N x {:.N} {:.Ne} {:.NE} on values and references; the output is read by the model's numeral recogniser: exactly N fraction digits (resp. N+1 significant digits and an exponent) and the value of the input rounded with the configured default mode by the model; integers beyond the padding limit must be unpadded and exact; flags: every fill/align/+/0 x kind template (240) x 6 widths on a decimal pool must equal std's padding of the unflagged output; non-trivial = digits are actually dropped (rounding decision); cases distinct by construction");
    run.bound("default_mode", cfg.mode.name());
    run.bound("padding_limit", cfg.padding);
    run.assume("where the documented padding limit can be read with or without counting the decimal point (padding == limit exactly, N > 0) both renderings are accepted");

    // S1 small-scope product
    let nmax: i64 = tier.pick(9_999, 999_999);
    run.bound("S1_unscaled_max", nmax);
    run.bound("S1_scales", "-3..=8");
    run.bound("S1_N", "0..=9");
    let ns: Vec<usize> = (0..=9).collect();
    run.par("S1 small-scope product", (nmax + 1) as usize, |i| {
        let mut t = Tally::default();
        for sign in [1i64, -1] {
            if i == 0 && sign < 0 {
                continue;
            }
            for s in -3i128..=8 {
                sweep(&run, &cfg, &Dec::new(i as i64 * sign, s), &ns, &mut t);
            }
        }
        if i % 1009 == 5 {
            run.sample(|| json!({"kind": "{:.N}", "x": Dec::new(i as i64, 5).show(), "N": 2, "via_ref": false}));
        }
        t
    });

    // S2 padding alphabet: integers with -scale in {...} x N in {...}
    let lim = cfg.padding as i128;
    let mut negs: Vec<i128> = vec![1, 2, 20, 21];
    negs.extend((lim - 3)..=(lim + 3));
    negs.push(lim + 100);
    let mut nset: Vec<usize> = vec![0, 1, 2];
    nset.extend(((lim - 3).max(0) as usize)..=((lim + 3) as usize));
    nset.push((lim + 100) as usize);
    nset.sort();
    nset.dedup();
    run.bound("S2_negative_scales", json!(negs.iter().map(|v| *v as i64).collect::<Vec<_>>()));
    run.bound("S2_N", json!(nset));
    run.par("S2 integer padding around the limit", negs.len(), |i| {
        let mut t = Tally::default();
        for n in [1i64, -42, 7, 999] {
            let x = Dec::new(n, -negs[i]);
            sweep(&run, &cfg, &x, &nset, &mut t);
            // every (integer zeros, N) pair whose total padding is within 2 of the limit
            let z = negs[i];
            for d in -2i128..=2 {
                for dot in [0i128, 1] {
                    let nn = lim + d - z - dot;
                    if nn >= 0 {
                        sweep(&run, &cfg, &x, &[nn as usize], &mut t);
                    }
                }
            }
        }
        t
    });
    // fractions at scales up to 400 with N in {0,1,scale-1,scale,scale+1,1100}
    let fr_scales: Vec<i128> = vec![1, 2, 3, 10, 19, 20, 21, 100, 399, 400];
    run.par("S2 fractions, large N", fr_scales.len(), |i| {
        let mut t = Tally::default();
        let s = fr_scales[i];
        for digits in ["1", "5", "15", "25", "49", "50", "51", "95", "99", "949", "950", "999999", "1234567890123456789012345"] {
            for sign in [1, -1] {
                let x = Dec { n: big(digits) * sign, s };
                let mut ns: Vec<usize> = vec![0, 1, (s - 1).max(0) as usize, s as usize, s as usize + 1, 1100];
                let d = digits.len() as i128;
                // rounding positions around the first significant digit
                for k in [s - d - 1, s - d, s - d + 1] {
                    if k >= 0 {
                        ns.push(k as usize);
                    }
                }
                ns.sort();
                ns.dedup();
                sweep(&run, &cfg, &x, &ns, &mut t);
            }
        }
        t
    });

    // S3 all-nines carries, values below half a unit, ties, for digit lengths 1..40 and long operands
    let lens: Vec<usize> = if tier.is_thorough() { (1..=40).chain([100, 300]).collect() } else { (1..=40).chain([100]).collect() };
    run.bound("S3_digit_lengths", json!(lens));
    run.par("S3 carries, ties, tiny values", lens.len(), |li| {
        let l = lens[li];
        let mut t = Tally::default();
        for (_, d) in patterns(l, run.seed()) {
            let n = big(&d);
            for sign in [1, -1] {
                for s in [0i128, 1, l as i128 - 1, l as i128, l as i128 + 1, l as i128 + 3, -2] {
                    let x = Dec { n: &n * sign, s };
                    let mut ns: Vec<usize> = vec![0, 1, 2];
                    for k in [s - l as i128 - 1, s - l as i128, s - l as i128 + 1, s - 1, s, s + 1, s - 2] {
                        if k >= 0 && k <= 1200 {
                            ns.push(k as usize);
                        }
                    }
                    if l > 2 {
                        ns.extend([l - 2, l - 1, l]);
                    }
                    ns.sort();
                    ns.dedup();
                    sweep(&run, &cfg, &x, &ns, &mut t);
                }
            }
        }
        t
    });

    // S3e structured operands (word limits, word-crossing products, patterns at every length are S3; carry
    // chains; all-ones words) x scales x N around the scale and the digit count
    let st = structured_ints(1, tier.pick(24, 60), run.seed());
    run.bound("S3e_structured_integers", st.len());
    run.par("S3e structured operands", st.len(), |i| {
        let mut t = Tally::default();
        let l = ndigits(&st[i]) as i128;
        for x in structured_decimals(&st[i..=i], &[0, 1, l - 1, l, l + 2, -2, 19, 20], &[0, 1]) {
            let s = x.s;
            let mut ns: Vec<usize> = vec![0, 1, 2];
            for k in [s - l - 1, s - l, s - l + 1, s - 2, s - 1, s, s + 1, l - 2, l - 1, l] {
                if k >= 0 && k <= 400 {
                    ns.push(k as usize);
                }
            }
            ns.sort();
            ns.dedup();
            sweep(&run, &cfg, &x, &ns, &mut t);
        }
        t
    });

    // S3b sparse tails behind the rounding digit ({:.N} and {:.Ne})
    let tail_lens: Vec<usize> = if tier.is_thorough() { (0..=72).chain([100, 127, 128, 129, 255, 256, 257, 1023, 1024, 1025, 1100, 1500, 2100, 4100]).collect() } else { (0..=40).chain([63, 64, 65, 257, 1100, 1500]).collect() };
    let tails = sparse_tails(&tail_lens);
    run.bound("S3b_tail_lengths", json!(tail_lens));
    run.par("S3b sparse tails (one non-zero digit at every position)", tails.len(), |i| {
        let mut t = Tally::default();
        for head in ["1", "2", "19", "99"] {
            for d0 in ['0', '5', '4', '9'] {
                let digits = format!("{}{}{}", head, d0, tails[i]);
                let l = digits.len() as i128;
                let h = head.len() as i128;
                for sign in [1, -1] {
                    // the head as integer part / entirely fractional / fractional with leading zeros
                    for s in [l - h, l, l + 2] {
                        let x = Dec { n: big(&digits) * sign, s };
                        // number of fraction digits that keeps exactly the head
                        let n_keep = (s - (l - h)) as usize;
                        let mut ns = vec![n_keep, n_keep + 1];
                        if n_keep > 0 {
                            ns.push(n_keep - 1);
                        }
                        ns.push(h as usize - 1); // for the exponent forms: h significant digits
                        ns.sort();
                        ns.dedup();
                        sweep(&run, &cfg, &x, &ns, &mut t);
                    }
                }
            }
        }
        t
    });

    // S3f: the five decision shapes (10..01, 49..9, 50..0, 50..01, 9..9) of the dropped digits at EVERY dropped
    // length 1..=L ({:.N} and {:.Ne})
    let lmax3f: usize = tier.pick(1500, 6000);
    run.bound("S3f_dropped_lengths", format!("1..={}", lmax3f));
    // ... and a ladder of far longer dropped parts (sizes at which a digit-count ESTIMATE first goes wrong are set
    // by the estimate's error, not by any literal in the code)
    let ladder: Vec<usize> = tier.pick(vec![3000, 5000, 7100, 8000, 10000, 12000, 16500, 20000], vec![12000, 16500, 20000, 25000, 33000, 50000, 70000, 100000]);
    run.bound("lmax3f_ladder", json!(ladder));
    run.par("S3f decision shapes at every dropped length", lmax3f + ladder.len(), |li| {
        let l = if li < lmax3f { li + 1 } else { ladder[li - lmax3f] };
        let mut t = Tally::default();
        for tail in decision_tails(l) {
            for (head, sign) in [("7", 1), ("86", -1)] {
                let digits = format!("{}{}", head, tail);
                let h = head.len();
                // the head as integer part; entirely fractional
                for s in [l as i128, (l + h) as i128] {
                    let x = Dec { n: big(&digits) * sign, s };
                    let n_keep = (s - l as i128) as usize;
                    let mut ns = vec![n_keep, h - 1];
                    ns.sort();
                    ns.dedup();
                    sweep(&run, &cfg, &x, &ns, &mut t);
                }
                // every digit behind the last printed place: 0.00<digits> printed with two (and one) fraction digits
                let x = Dec { n: big(&digits) * sign, s: (l + h + 2) as i128 };
                sweep(&run, &cfg, &x, &[2, 1, 3], &mut t);
            }
        }
        t
    });

    // S3g call histories of length two: {:.N1} / {:.N1e} then {:.N2} ... on the same operand, every ordered pair
    let hx: Vec<Dec> = vec![Dec::new(12345678, 3), Dec::new(-99995, 2), Dec::new(25, 1), Dec::new(1500001, 6), Dec { n: big(&filler_digits(run.seed(), 40, 40)), s: 17 }, Dec { n: pow10(30) - 1, s: 4 }, Dec::new(-14999, 0), Dec::new(5, 1)];
    run.bound("S3g_history_operands", hx.len());
    run.par("S3g call histories of length two", hx.len(), |i| {
        let mut t = Tally::default();
        let x = &hx[i];
        let xb = bd(x);
        let ns: Vec<usize> = (0..=(x.s.max(0) as usize + 2).min(20)).collect();
        t.states += 1;
        for &n1 in ns.iter() {
            for &n2 in ns.iter() {
                for k in [Kind::Fixed, Kind::LowerExp] {
                    t.transitions += 3;
                    t.nontrivial += 1;
                    let _ = guard(|| format!("{:.*}", n1, xb));
                    let _ = guard(|| format!("{:.*e}", n1, xb));
                    if let Some(mut v) = check(&cfg, k, &xb, x, n2, false) {
                        if let Some(o) = v.case.as_object_mut() {
                            o.insert("after".into(), json!({"N": n1}));
                        }
                        run.report(v.attr("history", true));
                    }
                }
            }
        }
        t
    });

    // S3c carry chains of every length behind every prefix length; word-limit coefficients
    let cc = carry_chains(tier.pick(20, 40), tier.pick(24, 70));
    run.bound("S3c_carry_chains", cc.len());
    run.par("S3c carry chains", cc.len(), |i| {
        let mut t = Tally::default();
        let l = cc[i].len() as i128;
        for sign in [1, -1] {
            // integer part of 10 digits when long enough, else all fractional
            for s in [l - 10, l, l + 3] {
                if s < 1 {
                    continue;
                }
                let x = Dec { n: big(&cc[i]) * sign, s };
                let mut ns: Vec<usize> = vec![];
                for drop in [1i128, 2] {
                    if s - drop >= 0 {
                        ns.push((s - drop) as usize);
                    }
                }
                ns.push((l - 2).max(0) as usize); // {:.Ne}: drops the last digit
                ns.push((l - 3).max(0) as usize);
                ns.sort();
                ns.dedup();
                sweep(&run, &cfg, &x, &ns, &mut t);
            }
        }
        t
    });
    // S3h: a round-up carry running through R nines, for run lengths far beyond the small scope and on both sides of
    // the configured integer-padding limit: the carry consumes every kept fraction digit (1.9^R 6 at N = R), crosses the
    // point into integer nines (7 9^R .96 at N = 0, 1), or both (-12 9^a . 9^b 5001 at N = b)
    let mut runs: Vec<usize> = (1..=40).chain([64, 100, 255, 256, 257, 500, 2 * lim as usize, 4097]).collect();
    runs.extend(((lim - 3).max(1) as usize)..=((lim + 3) as usize));
    runs.sort();
    runs.dedup();
    run.bound("S3h_nines_run_lengths", json!(runs));
    run.par("S3h carries through long runs of nines", runs.len(), |i| {
        let mut t = Tally::default();
        let r = runs[i];
        let nines = "9".repeat(r);
        let cases: Vec<(Dec, Vec<usize>)> = vec![
            (Dec { n: big(&format!("1{}6", nines)), s: r as i128 + 1 }, vec![r, r.saturating_sub(1), r + 1]),
            (Dec { n: big(&format!("7{}96", nines)), s: 2 }, vec![0, 1, 2]),
            (Dec { n: -big(&format!("12{}{}5001", nines, "9".repeat(r / 2 + 1))), s: (r / 2 + 1) as i128 + 4 }, vec![r / 2 + 1, r / 2, r / 2 + 2]),
        ];
        for (x, ns) in cases.iter() {
            sweep(&run, &cfg, x, ns, &mut t);
        }
        t
    });
    // S3i: environment faults: every precision formatting call into a sink that refuses output at EVERY point (byte
    // budgets whole-fragment and torn, every write_str call index); what the sink accepted must be a prefix of the
    // fault-free text and the error must surface; then a fault-free formatting of a second decimal on the same
    // (fresh) thread is judged as usual
    let fa: Vec<(Dec, usize)> = vec![(Dec::new(12345, 2), 1), (Dec::new(-995, 1), 0), (Dec::new(0, 3), 5), (Dec { n: pow10(21) - 1, s: 4 }, 2), (Dec::new(7, -3), 2), (Dec::new(-15, 7), 3)];
    let fb: Vec<(Dec, usize)> = vec![(Dec::new(-4250, 2), 1), (Dec::new(9996, 3), 2), (Dec::new(5, 1), 0)];
    run.bound("S3i_fault_histories", json!({"first": fa.len(), "second": fb.len(), "fault_points": "every byte budget (whole-fragment, torn) and call index"}));
    run.par("S3i formatting into failing sinks, then fault-free formatting", fa.len() * 6, |i| {
        use props::faulty::{Fault, FaultyWriter};
        let mut t = Tally::default();
        let (a, n1) = &fa[i / 6];
        let (k1, via) = ([Kind::Fixed, Kind::LowerExp, Kind::UpperExp][(i % 6) / 2], i % 2 == 1);
        let pa = bd(a);
        let full = match guard(|| k1.render(&pa, *n1, via)) {
            Ok(s) => s,
            Err(_) => return t,
        };
        for fault in Fault::all(full.len()) {
            let tt = std::thread::scope(|sc| {
                sc.spawn(|| {
                    let mut t = Tally::default();
                    let h = json!({"x": a.show(), "kind": k1.name(), "N": n1, "via_ref": via, "fault": fault.json()});
                    t.states += 1;
                    for again in [false, true] {
                        t.transitions += 1;
                        let mut w = FaultyWriter::new(fault);
                        let r = guard(|| k1.render_into(&pa, *n1, via, &mut w));
                        let bad = match &r {
                            Err(p) => Some(("panic", p.clone())),
                            Ok(res) => {
                                if !full.starts_with(&w.written) {
                                    Some(("sink_received_other_text", format!("{:?}", clip(&w.written))))
                                } else if w.failed && res.is_ok() {
                                    Some(("write_error_swallowed", format!("Ok(()) with {:?} delivered", clip(&w.written))))
                                } else if !w.failed && (res.is_err() || w.written != full) {
                                    Some(("fault_free_run_differs", format!("{:?} with {:?}", res, clip(&w.written))))
                                } else {
                                    None
                                }
                            }
                        };
                        if let Some((class, obs)) = bad {
                            let mut case = json!({"kind": k1.name(), "x": a.show(), "N": n1, "via_ref": via, "faulted": fault.json()});
                            if again {
                                case.as_object_mut().unwrap().insert("after_fault".into(), h.clone());
                            }
                            run.report(Violation::new(&format!("faulted format {}", k1.name()), class, case, format!("a prefix of {:?} and Err iff the sink refused", clip(&full)), obs).attr("fault", true));
                        }
                    }
                    for (b, n2) in fb.iter() {
                        let pb = bd(b);
                        for k2 in [Kind::Fixed, Kind::LowerExp, Kind::UpperExp] {
                            for via2 in [false, true] {
                                let mut w = FaultyWriter::new(fault);
                                let _ = guard(|| k1.render_into(&pa, *n1, via, &mut w));
                                t.transitions += 2;
                                if w.failed {
                                    t.nontrivial += 1;
                                }
                                if let Some(mut v) = check(&cfg, k2, &pb, b, *n2, via2) {
                                    if let Some(o) = v.case.as_object_mut() {
                                        o.insert("after_fault".into(), h.clone());
                                    }
                                    run.report(v.attr("history", true).attr("fault", true));
                                }
                            }
                        }
                    }
                    t
                })
                .join()
                .expect("S3i history thread")
            });
            t.merge(&tt);
        }
        t
    });
    let wl = word_limit_ints();
    run.par("S3d word-limit coefficients", wl.len(), |i| {
        let mut t = Tally::default();
        let d = ndigits(&wl[i]) as usize;
        for s in [0i128, 5, d as i128] {
            let x = Dec { n: wl[i].clone(), s };
            let mut ns: Vec<usize> = vec![0, 1, 2, d.saturating_sub(2), d.saturating_sub(1), d];
            if s > 0 {
                ns.push((s - 1) as usize);
            }
            ns.sort();
            ns.dedup();
            sweep(&run, &cfg, &x, &ns, &mut t);
        }
        t
    });

    // S4 flags
    let ts = templates();
    let mut pool: Vec<Dec> = vec![];
    for n in [0i64, 1, -1, 5, -5, 15, 25, 99, -99, 12345, -12345, 999999, 500, 1000000] {
        for s in [0i128, 1, 3, 7, -2, -17] {
            pool.push(Dec::new(n, s));
        }
    }
    pool.push(Dec { n: pow10(30) + 1, s: 10 });
    pool.push(Dec { n: -(pow10(19)) + 1, s: 25 });
    if tier.is_thorough() {
        for n in 1..=400i64 {
            pool.push(Dec::new(n * 7 - 1500, (n % 11) as i128 - 3));
        }
    }
    run.bound("S4_templates", ts.len());
    run.bound("S4_pool", pool.len());
    run.par("S4 width/fill/align/+/0 flags", pool.len(), |i| {
        let mut t = Tally::default();
        t.states += 1;
        let xb = bd(&pool[i]);
        for p in [0usize, 2, 5] {
            let vs = check_flags(&ts, &xb, &pool[i], p, &mut t);
            t.nontrivial += ts.len() as u64;
            for v in vs {
                run.report(v);
            }
        }
        if i % 20 == 0 {
            run.sample(|| json!({"spec": "{:*^+w$.p$e}", "x": pool[i].show(), "width": 14, "p": 2, "via_ref": false}));
        }
        t
    });
    let _ = (BigInt::zero(), BigInt::from(1).abs());
    // the whole exploration once more against the subject built under a non-default compile-time configuration
    // (mc/variants/cfg_alt/build.env: HalfUp, precision 34, Display thresholds 3 / 9, padding limit 50)
    run.bound("build_variants", "default configuration (this process) + cfg_alt (child process, same domain)");
    run.variant("cfg_alt");
    run.finish();
}
