//! Every spelling of + - * (decimal/ref, BigInt, primitive operands, compound forms), shared by C01 and C19.
use bigdecimal::{BigDecimal, BigDecimalRef};
use num_bigint::BigInt;
use spec::Dec;

#[derive(Clone, Copy, PartialEq, Eq, Debug)]
pub enum Op {
    Add,
    Sub,
    Mul,
}
impl Op {
    pub fn model(self, a: &Dec, b: &Dec) -> Dec {
        match self {
            Op::Add => a.add(b),
            Op::Sub => a.sub(b),
            Op::Mul => a.mul(b),
        }
    }
}

pub type F2 = fn(&BigDecimal, &BigDecimal) -> BigDecimal;
pub type FI = fn(&BigDecimal, &BigInt) -> BigDecimal;

/// (name, op, swapped, f): result must equal  a op b  (or  b op a  when swapped)
pub struct Shape<F> {
    pub name: &'static str,
    pub op: Op,
    pub swapped: bool,
    pub f: F,
}
#[macro_export]
macro_rules! sh {
    ($name:expr, $op:ident, $sw:expr, $f:expr) => {
        $crate::shapes::Shape { name: $name, op: $crate::shapes::Op::$op, swapped: $sw, f: $f }
    };
}

pub fn dec_shapes() -> Vec<Shape<F2>> {
    fn r(x: &BigDecimal) -> BigDecimalRef<'_> {
        x.to_ref()
    }
    vec![
        sh!("V+V", Add, false, |a, b| a.clone() + b.clone()),
        sh!("V+R", Add, false, |a, b| a.clone() + b),
        sh!("V+F", Add, false, |a, b| a.clone() + r(b)),
        sh!("R+V", Add, false, |a, b| a + b.clone()),
        sh!("R+R", Add, false, |a, b| a + b),
        sh!("R+F", Add, false, |a, b| a + r(b)),
        sh!("F+V", Add, false, |a, b| r(a) + b.clone()),
        sh!("F+R", Add, false, |a, b| r(a) + b),
        sh!("F+F", Add, false, |a, b| r(a) + r(b)),
        sh!("V+=V", Add, false, |a, b| {
            let mut t = a.clone();
            t += b.clone();
            t
        }),
        sh!("V+=R", Add, false, |a, b| {
            let mut t = a.clone();
            t += b;
            t
        }),
        sh!("V+=F", Add, false, |a, b| {
            let mut t = a.clone();
            t += r(b);
            t
        }),
        sh!("V-V", Sub, false, |a, b| a.clone() - b.clone()),
        sh!("V-R", Sub, false, |a, b| a.clone() - b),
        sh!("V-F", Sub, false, |a, b| a.clone() - r(b)),
        sh!("R-V", Sub, false, |a, b| a - b.clone()),
        sh!("R-R", Sub, false, |a, b| a - b),
        sh!("R-F", Sub, false, |a, b| a - r(b)),
        sh!("F-V", Sub, false, |a, b| r(a) - b.clone()),
        sh!("F-R", Sub, false, |a, b| r(a) - b),
        sh!("F-F", Sub, false, |a, b| r(a) - r(b)),
        sh!("V-=V", Sub, false, |a, b| {
            let mut t = a.clone();
            t -= b.clone();
            t
        }),
        sh!("V-=R", Sub, false, |a, b| {
            let mut t = a.clone();
            t -= b;
            t
        }),
        sh!("V-=F", Sub, false, |a, b| {
            let mut t = a.clone();
            t -= r(b);
            t
        }),
        sh!("V*V", Mul, false, |a, b| a.clone() * b.clone()),
        sh!("V*R", Mul, false, |a, b| a.clone() * b),
        sh!("R*V", Mul, false, |a, b| a * b.clone()),
        sh!("R*R", Mul, false, |a, b| a * b),
        sh!("V*=V", Mul, false, |a, b| {
            let mut t = a.clone();
            t *= b.clone();
            t
        }),
        sh!("V*=R", Mul, false, |a, b| {
            let mut t = a.clone();
            t *= b;
            t
        }),
    ]
}

pub fn int_shapes() -> Vec<Shape<FI>> {
    fn r(x: &BigDecimal) -> BigDecimalRef<'_> {
        x.to_ref()
    }
    vec![
        sh!("V+I", Add, false, |a, i| a.clone() + i.clone()),
        sh!("V+&I", Add, false, |a, i| a.clone() + i),
        sh!("R+I", Add, false, |a, i| a + i.clone()),
        sh!("R+&I", Add, false, |a, i| a + i),
        sh!("F+I", Add, false, |a, i| r(a) + i.clone()),
        sh!("F+&I", Add, false, |a, i| r(a) + i),
        sh!("I+V", Add, true, |a, i| i.clone() + a.clone()),
        sh!("I+R", Add, true, |a, i| i.clone() + a),
        sh!("I+F", Add, true, |a, i| i.clone() + r(a)),
        sh!("&I+V", Add, true, |a, i| i + a.clone()),
        sh!("&I+R", Add, true, |a, i| i + a),
        sh!("&I+F", Add, true, |a, i| i + r(a)),
        sh!("V+=I", Add, false, |a, i| {
            let mut t = a.clone();
            t += i.clone();
            t
        }),
        sh!("V+=&I", Add, false, |a, i| {
            let mut t = a.clone();
            t += i;
            t
        }),
        sh!("V-I", Sub, false, |a, i| a.clone() - i.clone()),
        sh!("V-&I", Sub, false, |a, i| a.clone() - i),
        sh!("R-I", Sub, false, |a, i| a - i.clone()),
        sh!("R-&I", Sub, false, |a, i| a - i),
        sh!("F-I", Sub, false, |a, i| r(a) - i.clone()),
        sh!("F-&I", Sub, false, |a, i| r(a) - i),
        sh!("I-V", Sub, true, |a, i| i.clone() - a.clone()),
        sh!("&I-V", Sub, true, |a, i| i - a.clone()),
        sh!("I-F", Sub, true, |a, i| i.clone() - r(a)),
        sh!("&I-F", Sub, true, |a, i| i - r(a)),
        sh!("V-=I", Sub, false, |a, i| {
            let mut t = a.clone();
            t -= i.clone();
            t
        }),
        sh!("V-=&I", Sub, false, |a, i| {
            let mut t = a.clone();
            t -= i;
            t
        }),
        sh!("V*I", Mul, false, |a, i| a.clone() * i.clone()),
        sh!("V*&I", Mul, false, |a, i| a.clone() * i),
        sh!("R*I", Mul, false, |a, i| a * i.clone()),
        sh!("R*&I", Mul, false, |a, i| a * i),
        sh!("I*V", Mul, true, |a, i| i.clone() * a.clone()),
        sh!("I*R", Mul, true, |a, i| i.clone() * a),
        sh!("&I*V", Mul, true, |a, i| i * a.clone()),
        sh!("&I*R", Mul, true, |a, i| i * a),
        sh!("V*=I", Mul, false, |a, i| {
            let mut t = a.clone();
            t *= i.clone();
            t
        }),
        sh!("V*=&I", Mul, false, |a, i| {
            let mut t = a.clone();
            t *= i;
            t
        }),
    ]
}

/// the 32 shapes per primitive type
#[macro_export]
macro_rules! prim_shapes {
    ($t:ty) => {{
        type FP = fn(&BigDecimal, $t) -> BigDecimal;
        fn r(x: &BigDecimal) -> BigDecimalRef<'_> {
            x.to_ref()
        }
        let v: Vec<$crate::shapes::Shape<FP>> = vec![
            sh!("V+T", Add, false, |a, p| a.clone() + p),
            sh!("R+T", Add, false, |a, p| a + p),
            sh!("F+T", Add, false, |a, p| r(a) + p),
            sh!("T+V", Add, true, |a, p| p + a.clone()),
            sh!("T+R", Add, true, |a, p| p + a),
            sh!("V+&T", Add, false, |a, p| a.clone() + &p),
            sh!("R+&T", Add, false, |a, p| a + &p),
            sh!("F+&T", Add, false, |a, p| r(a) + &p),
            sh!("&T+V", Add, true, |a, p| &p + a.clone()),
            sh!("&T+R", Add, true, |a, p| &p + a),
            sh!("V+=T", Add, false, |a, p| {
                let mut t = a.clone();
                t += p;
                t
            }),
            sh!("V+=&T", Add, false, |a, p| {
                let mut t = a.clone();
                t += &p;
                t
            }),
            sh!("V-T", Sub, false, |a, p| a.clone() - p),
            sh!("R-T", Sub, false, |a, p| a - p),
            sh!("T-V", Sub, true, |a, p| p - a.clone()),
            sh!("T-R", Sub, true, |a, p| p - a),
            sh!("V-&T", Sub, false, |a, p| a.clone() - &p),
            sh!("R-&T", Sub, false, |a, p| a - &p),
            sh!("&T-V", Sub, true, |a, p| &p - a.clone()),
            sh!("&T-R", Sub, true, |a, p| &p - a),
            sh!("V-=T", Sub, false, |a, p| {
                let mut t = a.clone();
                t -= p;
                t
            }),
            sh!("V-=&T", Sub, false, |a, p| {
                let mut t = a.clone();
                t -= &p;
                t
            }),
            sh!("V*T", Mul, false, |a, p| a.clone() * p),
            sh!("R*T", Mul, false, |a, p| a * p),
            sh!("T*V", Mul, true, |a, p| p * a.clone()),
            sh!("T*R", Mul, true, |a, p| p * a),
            sh!("V*&T", Mul, false, |a, p| a.clone() * &p),
            sh!("R*&T", Mul, false, |a, p| a * &p),
            sh!("&T*V", Mul, true, |a, p| &p * a.clone()),
            sh!("&T*R", Mul, true, |a, p| &p * a),
            sh!("V*=T", Mul, false, |a, p| {
                let mut t = a.clone();
                t *= p;
                t
            }),
            sh!("V*=&T", Mul, false, |a, p| {
                let mut t = a.clone();
                t *= &p;
                t
            }),
        ];
        v
    }};
}

