//! Operand alphabets shared by the drivers (DESIGN.md §3, "Notation").

use crate::engine::filler_digits;
use num_bigint::BigInt;
use spec::Dec;

/// scale-gap alphabet G: every gap to 45; both sides of the `<20` u64 path, of 19-digit chunk
/// multiples, of the 590 and 9440 power-of-ten algorithm switches
pub fn gaps() -> Vec<u64> {
    // every gap to 300 (covers u8 wrap-around 255..276 of a narrowed gap), then the decision constants
    let mut g: Vec<u64> = (0..=300).collect();
    g.extend([511, 512, 513, 530, 531, 532]);
    g.extend(585..=610);
    g.extend([1000, 1023, 1024, 1025, 1179, 1180, 1181, 4096, 5000]);
    g.extend(9435..=9445);
    g.extend([9999, 10000, 65535, 65536, 65537, 65555, 65556]);
    g
}

pub const LONG_LENS_QUICK: [usize; 11] = [19, 20, 21, 38, 39, 40, 100, 257, 589, 591, 1025];
pub const LONG_LENS_THOROUGH: [usize; 20] = [19, 20, 21, 38, 39, 40, 100, 255, 256, 257, 300, 589, 590, 591, 1000, 1023, 1024, 1025, 3000, 4097];

/// digit-string patterns of a given length: 9…9, 10…0, 10…01, 49…9, 50…0, 50…01, 19…9, 9…98, filler
pub fn patterns(len: usize, seed: u64) -> Vec<(&'static str, String)> {
    assert!(len >= 1);
    let rep = |first: char, mid: char, last: char| -> String {
        let mut s = String::with_capacity(len);
        for i in 0..len {
            s.push(if i == 0 { first } else if i == len - 1 { last } else { mid });
        }
        s
    };
    let mut v = vec![("nines", rep('9', '9', '9')), ("pow10", rep('1', '0', '0'))];
    if len >= 2 {
        v.push(("pow10p1", rep('1', '0', '1')));
        v.push(("49s", rep('4', '9', '9')));
        v.push(("50s", rep('5', '0', '0')));
        v.push(("50s1", rep('5', '0', '1')));
        v.push(("1nines", rep('1', '9', '9')));
        v.push(("nines8", rep('9', '9', '8')));
    }
    v.push(("filler", filler_digits(seed, len as u64, len)));
    v
}

pub fn big(s: &str) -> BigInt {
    s.parse().unwrap()
}

/// LONG operand symbols as positive integers (callers add signs and scales)
pub fn long_ints(lens: &[usize], seed: u64) -> Vec<(String, BigInt)> {
    let mut out = vec![];
    for &l in lens {
        for (name, digits) in patterns(l, seed) {
            out.push((format!("{}x{}", name, l), big(&digits)));
        }
    }
    out
}

/// D(range; s_lo..=s_hi): all (n, s) with n in [-nmax, nmax]
pub fn small_decimals(nmax: i64, s_lo: i64, s_hi: i64) -> Vec<Dec> {
    let mut v = Vec::with_capacity(((2 * nmax + 1) * (s_hi - s_lo + 1)) as usize);
    // simplest first: by magnitude, then sign, then |scale|
    let mut scales: Vec<i64> = (s_lo..=s_hi).collect();
    scales.sort_by_key(|s| (s.abs(), *s < 0));
    for a in 0..=nmax {
        for sign in [1i64, -1] {
            if a == 0 && sign < 0 {
                continue;
            }
            for &s in &scales {
                v.push(Dec::new(a * sign, s as i128));
            }
        }
    }
    v
}

pub fn dj(d: &Dec) -> serde_json::Value {
    serde_json::Value::String(d.show())
}
pub fn jd(v: &serde_json::Value) -> Dec {
    Dec::parse(v.as_str().expect("operand must be a string")).expect("bad operand")
}

/// Digit tails of every length 0..=max_len that are all zero, or all zero except one non-zero digit at
/// one position (every position).  Used behind a "deciding" digit (0, 5, 4, 9) so that a scan of the
/// discarded digits that skips or mis-indexes any position (chunked scans, off-by-one slices) changes the
/// rounding decision.
pub fn sparse_tails(lens: &[usize]) -> Vec<String> {
    let mut out = vec![];
    for &l in lens {
        out.push("0".repeat(l));
        // every position for tails up to 72 digits; for longer tails the positions next to either end, around
        // machine-word multiples and the middle
        let positions: Vec<usize> = if l <= 72 {
            (0..l).collect()
        } else {
            let mut p: Vec<usize> = vec![0, 1, 2, 7, 8, 9, 15, 16, 17, 18, 19, 20, 31, 32, 63, 64, l / 2, l - 20, l - 17, l - 16, l - 9, l - 8, l - 2, l - 1];
            p.retain(|x| *x < l);
            p.sort();
            p.dedup();
            p
        };
        for j in positions {
            for d in ['1', '9'] {
                let mut t: Vec<char> = "0".repeat(l).chars().collect();
                t[j] = d;
                out.push(t.into_iter().collect());
            }
        }
    }
    out
}

/// m * 2^a * 5^b for every a in `az`, b in `bz`, m in `ms`: the natural alphabet wherever decimal trailing
/// zeros (= min(v2, v5)) or binary-float images (m * 5^k) matter
pub fn two_five_ints(az: &[u32], bz: &[u32], ms: &[i64]) -> Vec<(u32, u32, BigInt)> {
    let mut out = vec![];
    for &a in az {
        for &b in bz {
            let mut v = BigInt::from(1) << a as usize;
            for _ in 0..b {
                v *= 5;
            }
            for &m in ms {
                out.push((a, b, &v * m));
            }
        }
    }
    out
}

/// Decimal spellings of the machine-word limits 2^31, 2^32, 2^63, 2^64, 2^127, 2^128 (and 10^19, 10^38)
/// plus offsets -2..=9: digit strings on which word-at-a-time digit accumulation overflows
pub fn limit_spellings() -> Vec<String> {
    let mut out = vec![];
    let mut bases: Vec<BigInt> = [31usize, 32, 53, 63, 64, 96, 127, 128, 192, 256].iter().map(|e| BigInt::from(1) << *e).collect();
    bases.push(spec::pow10(19));
    bases.push(spec::pow10(38));
    for b in bases {
        for d in -2i64..=9 {
            out.push((&b + d).to_string());
        }
    }
    out
}

/// +-(2^e + d) for e in {31, 32, 53, 63, 64, 96, 127, 128, 192, 256}, d in -9..=9: coefficients on both sides of
/// every machine-word limit (native fast paths overflow or change path exactly here)
pub fn word_limit_ints() -> Vec<BigInt> {
    let mut out = vec![];
    for e in [31usize, 32, 53, 63, 64, 96, 127, 128, 192, 256] {
        for d in -9i64..=9 {
            let v = (BigInt::from(1) << e) + d;
            out.push(v.clone());
            out.push(-v);
        }
    }
    out
}

/// digit strings prefix | r nines | last, for every prefix length 0..=pmax and every run length 0..=rmax:
/// carry chains of every length behind every prefix length
pub fn carry_chains(pmax: usize, rmax: usize) -> Vec<String> {
    let mut out = vec![];
    for pl in 0..=pmax {
        let prefix: String = (0..pl).map(|i| char::from(b'1' + ((i * 7 + 2) % 8) as u8)).collect();
        for r in 0..=rmax {
            for last in ["5", "6", "49", "50", "51", "4"] {
                let s = format!("{}{}{}", prefix, "9".repeat(r), last);
                if !s.starts_with('0') {
                    out.push(s);
                }
            }
        }
    }
    out
}

/// The structured-operand library: positive integers whose SHAPE is what a shortcut in the code could key
/// on, independent of any literal in the current source —
///   * machine-word limits 2^e + d (e in {31,32,53,63,64,96,127,128,192,256}, d in -9..=9);
///   * floor(2^e / 10^k) + {-1,0,1,2} for e in {31,32,63,64,127,128} and every k <= 40: coefficients whose
///     product with a power of ten crosses a word limit;
///   * the nine digit patterns (9..9, 10..0, 10..01, 49..9, 50..0, 50..01, 19..9, 9..98, filler) at EVERY
///     length 1..=lmax: every residue of the length modulo any chunk size (8, 9, 19 digits, 32/64 bits);
///   * carry chains prefix|9^r|last for prefix lengths 0..=3 and every run length 0..=rmax;
///   * 2^n - 1, 2^n, 2^n + 1 around word multiples (all-ones / single-bit words) up to 2^260.
/// Sorted, without duplicates.  Callers add signs, scales and written-out trailing zeros.
pub fn structured_ints(lmax: usize, rmax: usize, seed: u64) -> Vec<BigInt> {
    let mut out: Vec<BigInt> = word_limit_ints().into_iter().filter(|v| v.sign() == num_bigint::Sign::Plus).collect();
    for e in [31usize, 32, 63, 64, 127, 128] {
        let mut p = BigInt::from(1);
        for _k in 0..=40 {
            let q = (BigInt::from(1) << e) / &p;
            for d in [-1i64, 0, 1, 2] {
                let c = &q + d;
                if c.sign() == num_bigint::Sign::Plus {
                    out.push(c);
                }
            }
            p *= 10;
        }
    }
    for l in 1..=lmax {
        for (_, d) in patterns(l, seed) {
            out.push(big(&d));
        }
    }
    for s in carry_chains(3, rmax) {
        out.push(big(&s));
    }
    for n in [8usize, 16, 24, 31, 32, 33, 48, 63, 64, 65, 95, 96, 97, 127, 128, 129, 159, 160, 191, 192, 193, 255, 256, 257, 260] {
        for d in [-1i64, 0, 1] {
            out.push((BigInt::from(1) << n) + d);
        }
    }
    out.sort();
    out.dedup();
    out
}

/// structured integers as decimals: both signs x the given scales x k written-out trailing zeros
pub fn structured_decimals(ints: &[BigInt], scales: &[i128], pads: &[u64]) -> Vec<Dec> {
    let mut out = vec![];
    for n in ints {
        for &s in scales {
            for &k in pads {
                let m = n * spec::pow10(k);
                out.push(Dec { n: m.clone(), s: s + k as i128 });
                out.push(Dec { n: -m, s: s + k as i128 });
            }
        }
    }
    out
}

/// Pairs that are NOT value-equal but differ from a value-equal pair (A = B*10^k at scale k, B at scale 0)
/// in exactly one place: one 32-bit word of A dropped, truncated or changed by +-2^(32j) for every word index j
/// up to two words ABOVE the top word of A, or one decimal digit of A changed (+-1, +-9 at 10^j) at EVERY digit
/// position j.  A comparison that skips a word, a digit position, or the words beyond the shorter operand
/// calls such a pair equal.  Gaps k: 1..=kmax and 38, 39.
pub fn near_equal_pairs(kmax: u64, bs: &[BigInt]) -> Vec<(Dec, Dec)> {
    let ks: Vec<u64> = (1..=kmax).chain([38, 39]).collect();
    near_equal_pairs_at(&ks, bs)
}

/// the same family at the given gaps (far gaps: every residue of the gap modulo the word size, several whole
/// words of shifted-out bits)
pub fn near_equal_pairs_at(ks: &[u64], bs: &[BigInt]) -> Vec<(Dec, Dec)> {
    use num_traits::Zero;
    let mut out = vec![];
    for &k in ks {
        let p10 = spec::pow10(k);
        for b in bs {
            let prod = b * &p10;
            let words = ((prod.bits() + 31) / 32) as usize;
            let mut cands: Vec<BigInt> = vec![];
            for j in 1..=words + 2 {
                let w = BigInt::from(1) << (32 * j);
                cands.push(&prod % &w);
                cands.push(&prod + &w);
                cands.push(&prod + &w * 7);
                if prod > w {
                    cands.push(&prod - &w);
                }
                cands.push(&prod >> (32 * j));
            }
            let nd = spec::ndigits(&prod);
            let mut pj = BigInt::from(1);
            for _j in 0..=nd {
                for d in [1i64, 9] {
                    cands.push(&prod + &pj * d);
                    if prod > &pj * d {
                        cands.push(&prod - &pj * d);
                    }
                }
                pj *= 10;
            }
            for a in cands {
                if a.is_zero() || a == prod {
                    continue;
                }
                out.push((Dec { n: a.clone(), s: k as i128 }, Dec { n: b.clone(), s: 0 }));
                out.push((Dec { n: -a, s: k as i128 }, Dec { n: -b.clone(), s: 0 }));
            }
        }
    }
    out
}

/// The five decision shapes of a discarded digit string of length l: 10..01 (far below half), 49..9 (just
/// below), 50..0 (the tie), 50..01 (just above), 9..9 (carry): used at EVERY length l up to a bound, so that any
/// estimate of the discarded length (digit counts from bit lengths, chunk counts) is exercised at every value
pub fn decision_tails(l: usize) -> Vec<String> {
    assert!(l >= 1);
    let mk = |first: char, mid: char, last: char| -> String { (0..l).map(|i| if i == 0 { first } else if i == l - 1 { last } else { mid }).collect() };
    let mut v = vec![mk('4', '9', '9'), mk('5', '0', '0'), mk('9', '9', '9')];
    if l >= 2 {
        v.push(mk('1', '0', '1'));
        v.push(mk('5', '0', '1'));
    } else {
        v.push("1".to_string());
    }
    v
}

/// Ordered pairs (A, B) of coefficients for call histories "render / measure A, then B" aimed at weak cache
/// keys: B differs from A
///   * by single-bit changes in TWO adjacent 64-bit words at every relative rotation r (A + 2^(64j) + 2^(64(j+1)+r),
///     r = 0..64): any fingerprint that folds the words with rotate / xor / add is linear, so some such pair collides
///     while bit length and the other words stay equal;
///   * in a MIDDLE word only (A + c*2^64 for 3+ word values, also across a power of ten: 10^k - 2^64 then 10^k + 2^64):
///     keys made of length, lowest and highest word collide;
///   * by +-1, +-2^64 (neighbours).
pub fn weak_key_pairs() -> Vec<(BigInt, BigInt)> {
    let one = BigInt::from(1);
    let mut out = vec![];
    let bases: Vec<BigInt> = vec![(&one << 191usize) + 12345, (&one << 140usize) + (&one << 70usize) + 99, spec::pow10(60) - (&one << 64usize), spec::pow10(45) + 7, (&one << 255usize) - 19];
    for a in bases.iter() {
        for j in 0..2usize {
            for r in 0..64usize {
                let b = a + (&one << (64 * j)) + (&one << (64 * (j + 1) + r));
                if b.bits() == a.bits() {
                    out.push((a.clone(), b));
                }
            }
        }
        for c in [1i64, 2, 3, 1000] {
            out.push((a.clone(), a + (&one << 64usize) * c));
            out.push((a + (&one << 64usize) * c, a.clone()));
        }
        out.push((a.clone(), a + 1));
        out.push((a + 1, a.clone()));
    }
    for k in [30u64, 39, 45, 60, 77] {
        let p = spec::pow10(k);
        let w = &one << 64usize;
        out.push((&p - &w, &p + &w));
        out.push((&p + &w, &p - &w));
        out.push((&p - 1, p.clone()));
        out.push((p.clone(), &p - 1));
        out.push((&p - &w, &p + &w * 5));
    }
    out
}

/// Coefficients written as 64-bit words drawn from `vals`, EVERY combination for 1..=nwords words (top word
/// non-zero): zero words in the middle, words below a power of ten, all-ones words at every position.  Word-at-a-time
/// code (stack buffers of a fixed number of words, `zip` over words, per-word carries) is decided by exactly this.
pub fn sparse_words(nwords: usize, vals: &[u64]) -> Vec<BigInt> {
    let mut out = vec![];
    for n in 1..=nwords {
        let total = vals.len().pow(n as u32);
        for mut code in 0..total {
            let mut v = BigInt::from(0);
            let mut top = 0u64;
            for i in 0..n {
                let w = vals[code % vals.len()];
                code /= vals.len();
                v += BigInt::from(w) << (64 * i);
                if i == n - 1 {
                    top = w;
                }
            }
            if top != 0 {
                out.push(v);
            }
        }
    }
    out.sort();
    out.dedup();
    out
}

/// Word values on which "multiply the word by 10^g and add a carry" leaves the machine word: floor(2^B / 10^g) + d
/// for B in {32, 64, 128}, d in {-1, 0, 1}, placed at 32-bit word position `pos` of an otherwise zero coefficient.
pub fn critical_word_ints(g: u32, positions: &[usize]) -> Vec<BigInt> {
    let mut out = vec![];
    let p = BigInt::from(10).pow(g);
    for b in [32usize, 64, 128] {
        let q = (BigInt::from(1) << b) / &p;
        for d in [-1i64, 0, 1] {
            let w = &q + d;
            if w.sign() != num_bigint::Sign::Plus {
                continue;
            }
            for &pos in positions {
                out.push(w.clone() << (32 * pos));
            }
        }
    }
    out.sort();
    out.dedup();
    out
}

/// Radicands whose leading machine word is an exact k-th power m^k (k = 2, 3) followed by k*j low bits that are all
/// ones / a single top bit: X = (m^k << k*j) + low.  An integer-root routine seeded from the leading word starts at
/// m << j, below the true root; the decimal-built families (powers, powers +- a far digit) never have this shape.
pub fn binary_power_heads(k: u32, js: &[usize]) -> Vec<BigInt> {
    let ms: Vec<u64> = if k == 3 { vec![1 << 20, (1 << 20) + 1, 1_290_000, 1_664_511, (1 << 21) - 1] } else { vec![1 << 31, (1 << 31) + 1, 3_037_000_499, u32::MAX as u64] };
    let mut out = vec![];
    for &m in ms.iter() {
        let mk = BigInt::from(m).pow(k);
        for &j in js {
            let sh = k as usize * j;
            let head = mk.clone() << sh;
            out.push(&head + ((BigInt::from(1) << sh) - 1));
            out.push(&head + (BigInt::from(1) << (sh - 1)));
        }
    }
    out
}

/// Primitive-width integers next to a power of ten: 10^k + d for every k with 10^k < 2^bits and small / word-sized
/// offsets d.  A float-based "is this a power of ten" test (log10, f64 conversion) takes them for 10^k.
pub fn near_powers_of_ten(bits: u32) -> Vec<BigInt> {
    let lim = BigInt::from(1) << bits;
    let mut out = vec![];
    let mut p = BigInt::from(1);
    while p < lim {
        for d in [-32768i64, -2048, -256, -17, -16, -3, -2, -1, 0, 1, 2, 3, 16, 17, 32, 256, 2048, 32768] {
            let v = &p + d;
            if v.sign() == num_bigint::Sign::Plus && v < lim {
                out.push(v);
            }
        }
        p *= 10;
    }
    out.sort();
    out.dedup();
    out
}

/// near-equal pairs beyond the basic family: FAR gaps (every gap 41..=140: every residue modulo 32 and 64 with one
/// and two whole words of shifted-out bits; around 192, 256, 320, 640) with short B, and LONG B (both operands
/// several hundred digits, beyond any fixed-width fast path) at every gap 1..=40 and a few far ones
pub fn near_equal_pairs_extended(seed: u64) -> Vec<(Dec, Dec)> {
    let far: Vec<u64> = (41..=140).chain([191, 192, 193, 255, 256, 257, 320, 640]).collect();
    let short: Vec<BigInt> = vec![BigInt::from(3), (BigInt::from(1) << 64) + 1, (BigInt::from(1) << 128) + 5];
    let mut out = near_equal_pairs_at(&far, &short);
    let long: Vec<BigInt> = vec![big(&format!("{}7", filler_digits(seed, 3201, 320))), big(&filler_digits(seed, 4001, 400)) << 3];
    let ks: Vec<u64> = (1..=40).chain([45, 64, 65, 100]).collect();
    out.extend(near_equal_pairs_at(&ks, &long));
    out
}
