//! Glue between the model's types and the subject's.

use bigdecimal::{BigDecimal, Context, RoundingMode};
use num_bigint::BigInt;
use spec::{Dec, Mode};
use std::num::NonZeroU64;

pub fn rm(m: Mode) -> RoundingMode {
    match m {
        Mode::Up => RoundingMode::Up,
        Mode::Down => RoundingMode::Down,
        Mode::Ceiling => RoundingMode::Ceiling,
        Mode::Floor => RoundingMode::Floor,
        Mode::HalfUp => RoundingMode::HalfUp,
        Mode::HalfDown => RoundingMode::HalfDown,
        Mode::HalfEven => RoundingMode::HalfEven,
    }
}
pub fn mode_of(m: RoundingMode) -> Mode {
    match m {
        RoundingMode::Up => Mode::Up,
        RoundingMode::Down => Mode::Down,
        RoundingMode::Ceiling => Mode::Ceiling,
        RoundingMode::Floor => Mode::Floor,
        RoundingMode::HalfUp => Mode::HalfUp,
        RoundingMode::HalfDown => Mode::HalfDown,
        RoundingMode::HalfEven => Mode::HalfEven,
    }
}
pub fn ctx(p: u64, m: Mode) -> Context {
    Context::new(NonZeroU64::new(p).unwrap(), rm(m))
}
/// build the subject's value from a model decimal (scale must fit i64)
pub fn bd(d: &Dec) -> BigDecimal {
    BigDecimal::new(d.n.clone(), i64::try_from(d.s).expect("scale outside i64"))
}
pub fn bdn(n: impl Into<BigInt>, s: i64) -> BigDecimal {
    BigDecimal::new(n.into(), s)
}
/// observe the subject's complete state
pub fn dec(x: &BigDecimal) -> Dec {
    let (n, s) = x.as_bigint_and_exponent();
    Dec { n, s: s as i128 }
}
pub fn show(x: &BigDecimal) -> String {
    dec(x).show()
}
