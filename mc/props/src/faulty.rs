//! Environment faults for formatting code: a `fmt::Write` sink that refuses output after a byte budget or after
//! a number of `write_str` calls.  Drivers enumerate EVERY fault point of a rendering (deviation bound 1: one
//! failing call), then continue the history with ordinary renderings on the same thread.
use std::fmt;

#[derive(Clone, Copy, Debug, PartialEq, Eq)]
pub enum Fault {
    /// accept whole fragments while the total stays within `n` bytes, refuse the first fragment that does not fit
    Bytes(usize),
    /// as `Bytes`, but the refused fragment is written up to the budget first (a torn write)
    TornBytes(usize),
    /// refuse the `n`-th call of write_str / write_char (0-based)
    Calls(usize),
}

pub struct FaultyWriter {
    pub fault: Fault,
    pub written: String,
    pub calls: usize,
    pub failed: bool,
}

impl FaultyWriter {
    pub fn new(fault: Fault) -> FaultyWriter {
        FaultyWriter { fault, written: String::new(), calls: 0, failed: false }
    }
}

impl fmt::Write for FaultyWriter {
    fn write_str(&mut self, s: &str) -> fmt::Result {
        let call = self.calls;
        self.calls += 1;
        match self.fault {
            Fault::Bytes(n) => {
                if self.written.len() + s.len() > n {
                    self.failed = true;
                    return Err(fmt::Error);
                }
            }
            Fault::TornBytes(n) => {
                if self.written.len() + s.len() > n {
                    let room = n.saturating_sub(self.written.len());
                    let mut cut = room.min(s.len());
                    while !s.is_char_boundary(cut) {
                        cut -= 1;
                    }
                    self.written.push_str(&s[..cut]);
                    self.failed = true;
                    return Err(fmt::Error);
                }
            }
            Fault::Calls(n) => {
                if call >= n {
                    self.failed = true;
                    return Err(fmt::Error);
                }
            }
        }
        self.written.push_str(s);
        Ok(())
    }
}

impl Fault {
    pub fn json(&self) -> serde_json::Value {
        match self {
            Fault::Bytes(n) => serde_json::json!({"bytes": n}),
            Fault::TornBytes(n) => serde_json::json!({"torn_bytes": n}),
            Fault::Calls(n) => serde_json::json!({"calls": n}),
        }
    }
    pub fn from_json(v: &serde_json::Value) -> Fault {
        if let Some(n) = v.get("bytes").and_then(|x| x.as_u64()) {
            Fault::Bytes(n as usize)
        } else if let Some(n) = v.get("torn_bytes").and_then(|x| x.as_u64()) {
            Fault::TornBytes(n as usize)
        } else {
            Fault::Calls(v["calls"].as_u64().expect("fault") as usize)
        }
    }
    /// every fault point of a rendering whose complete output has `len` bytes (the last ones do not fire: the
    /// fault-free run is part of the enumeration)
    pub fn all(len: usize) -> Vec<Fault> {
        let mut v = vec![];
        for n in 0..=len {
            v.push(Fault::Bytes(n));
        }
        for n in 0..=len {
            v.push(Fault::TornBytes(n));
        }
        for n in 0..=(len + 1).min(24) {
            v.push(Fault::Calls(n));
        }
        v
    }
}
