//! Shared driver code for C10 (square root) and C11 (cube root).

use crate::alpha::*;
use crate::conv::*;
use crate::engine::*;
use bigdecimal::BigDecimal;
use num_bigint::BigInt;
use num_traits::{Signed, Zero};
use serde_json::{json, Value};
use spec::*;

pub const SQRT_ENTRIES: [&str; 5] = ["sqrt_with_context", "ref sqrt_with_context", "ref sqrt_abs_with_context", "ref sqrt_copysign_with_context", "sqrt()"];
pub const CBRT_ENTRIES: [&str; 2] = ["cbrt_with_context", "cbrt()"];

pub fn default_ctx() -> (u64, Mode) {
    let p: u64 = option_env!("RUST_BIGDECIMAL_DEFAULT_PRECISION").unwrap_or("100").parse().unwrap();
    let m = Mode::from_name(option_env!("RUST_BIGDECIMAL_DEFAULT_ROUNDING_MODE").unwrap_or("HalfEven")).unwrap();
    (p, m)
}

fn call(entry: &str, xb: &BigDecimal, p: u64, m: Mode) -> Option<BigDecimal> {
    let c = ctx(p, m);
    match entry {
        "sqrt_with_context" => xb.sqrt_with_context(&c),
        "ref sqrt_with_context" => xb.to_ref().sqrt_with_context(&c),
        "ref sqrt_abs_with_context" => Some(xb.to_ref().sqrt_abs_with_context(&c)),
        "ref sqrt_copysign_with_context" => Some(xb.to_ref().sqrt_copysign_with_context(&c)),
        "sqrt()" => xb.sqrt(),
        "cbrt_with_context" => Some(xb.cbrt_with_context(&c)),
        "cbrt()" => Some(xb.cbrt()),
        _ => unreachable!(),
    }
}

pub fn case_json(entry: &str, x: &Dec, p: u64, m: Mode) -> Value {
    json!({"entry": entry, "x": x.show(), "p": p, "mode": m.name()})
}

/// expected result: None = the call must return None (negative radicand of sqrt)
fn expected(entry: &str, x: &Dec, p: u64, m: Mode) -> Option<Dec> {
    let neg = x.n.is_negative();
    let absn = x.n.abs();
    match entry {
        "sqrt_with_context" | "ref sqrt_with_context" | "sqrt()" => {
            if neg {
                None
            } else {
                Some(root_rounded(&x.n, x.s, 2, p, m))
            }
        }
        "ref sqrt_abs_with_context" => Some(root_rounded(&absn, x.s, 2, p, m)),
        "ref sqrt_copysign_with_context" => {
            let r = root_rounded(&absn, x.s, 2, p, m);
            Some(if neg { r.neg() } else { r })
        }
        _ => Some(root_rounded(&x.n, x.s, 3, p, m)),
    }
}

pub fn check(entry: &str, xb: &BigDecimal, x: &Dec, p: u64, m: Mode) -> Option<Violation> {
    let k = if entry.contains("cbrt") { 3 } else { 2 };
    let want = expected(entry, x, p, m);
    let d = ndigits(&x.n);
    let mk = |class: &str, obs: String| {
        // attributes describing the input class (for known-finding matching)
        let exact = match &want {
            Some(w) => {
                let mut pw = w.clone();
                for _ in 1..k {
                    pw = pw.mul(w);
                }
                let ax = Dec { n: if k == 2 { x.n.abs() } else { x.n.clone() }, s: x.s };
                pw.eq_val(&ax) || (k == 2 && pw.eq_val(&ax))
            }
            None => false,
        };
        Violation::new(&format!("root {}", entry), class, case_json(entry, x, p, m), want.as_ref().map(|w| w.show()).unwrap_or("None".into()), obs)
            .attr("entry", entry)
            .attr("mode", m.name())
            .attr("p", p)
            .attr("digits", d)
            .attr("long_input", d > k as u64 * (p + if k == 2 { 5 } else { 4 }))
            .attr("root_exact", exact)
            .attr("negative", x.n.is_negative())
    };
    match guard(|| call(entry, xb, p, m)) {
        Err(e) => Some(mk("panic", e)),
        Ok(got) => match (got, &want) {
            (None, None) => None,
            (Some(r), None) => Some(mk("wrong_value", format!("Some({})", show(&r)))),
            (None, Some(_)) => Some(mk("wrong_value", "None".into())),
            (Some(r), Some(w)) => {
                let r = dec(&r);
                if r.eq_val(w) {
                    None
                } else {
                    Some(mk("wrong_value", r.show()))
                }
            }
        },
    }
}

/// one call preceded by another call on the same operand (same thread): the library is stateless, so the
/// second result must be what the model says regardless of the first; a violation records the history
pub fn check_after(entry: &str, xb: &BigDecimal, x: &Dec, first: (u64, Mode), second: (u64, Mode)) -> Option<Violation> {
    let _ = guard(|| call(entry, xb, first.0, first.1));
    check(entry, xb, x, second.0, second.1).map(|mut v| {
        if let Some(o) = v.case.as_object_mut() {
            o.insert("after".into(), serde_json::json!({"p": first.0, "mode": first.1.name()}));
        }
        v.attr("history", true)
    })
}

/// call histories of length two on each operand: every ordered pair of (precision, mode) settings from
/// `ps` x all modes, and the descending chain pmax..1 under each fixed mode
pub fn history_pairs(run: &Run, k: u32, x: &Dec, ps: &[u64], pmax: u64, t: &mut Tally) {
    let xb = bd(x);
    let entry = if k == 2 { SQRT_ENTRIES[0] } else { CBRT_ENTRIES[0] };
    t.states += 1;
    for &p1 in ps {
        for m1 in MODES {
            for &p2 in ps {
                for m2 in MODES {
                    t.transitions += 2;
                    t.nontrivial += 1;
                    if let Some(v) = check_after(entry, &xb, x, (p1, m1), (p2, m2)) {
                        run.report(v);
                    }
                }
            }
        }
    }
    for m in MODES {
        for p in (1..pmax).rev() {
            t.transitions += 2;
            t.nontrivial += 1;
            if let Some(v) = check_after(entry, &xb, x, (p + 1, m), (p, m)) {
                run.report(v);
            }
        }
    }
}

pub fn replay(case: &Value) -> Vec<Violation> {
    let x = jd(&case["x"]);
    let entry = case["entry"].as_str().unwrap();
    let e = SQRT_ENTRIES.iter().chain(CBRT_ENTRIES.iter()).find(|e| **e == entry).expect("unknown entry");
    if let Some(a) = case.get("after") {
        let first = (a["p"].as_u64().unwrap(), Mode::from_name(a["mode"].as_str().unwrap()).unwrap());
        let second = (case["p"].as_u64().unwrap(), Mode::from_name(case["mode"].as_str().unwrap()).unwrap());
        return check_after(e, &bd(&x), &x, first, second).into_iter().collect();
    }
    check(e, &bd(&x), &x, case["p"].as_u64().unwrap(), Mode::from_name(case["mode"].as_str().unwrap()).unwrap()).into_iter().collect()
}

/// all modes x given precisions through the primary entry point; the secondary entry points on
/// every `stride`-th call
pub fn sweep(run: &Run, k: u32, x: &Dec, ps: &[u64], all_entries: bool, t: &mut Tally) {
    let xb = bd(x);
    t.states += 1;
    let (primary, rest): (&str, &[&str]) = if k == 2 { (SQRT_ENTRIES[0], &SQRT_ENTRIES[1..4]) } else { (CBRT_ENTRIES[0], &[]) };
    for &p in ps {
        for m in MODES {
            t.transitions += 1;
            t.nontrivial += 1;
            if let Some(v) = check(primary, &xb, x, p, m) {
                run.report(v);
            }
            if all_entries {
                for e in rest {
                    t.transitions += 1;
                    if let Some(v) = check(e, &xb, x, p, m) {
                        run.report(v);
                    }
                }
            }
        }
    }
}

/// the default-context forms sqrt() / cbrt()
pub fn check_default(run: &Run, k: u32, x: &Dec, t: &mut Tally) {
    let (p, m) = default_ctx();
    let e = if k == 2 { "sqrt()" } else { "cbrt()" };
    t.transitions += 1;
    if let Some(v) = check(e, &bd(x), x, p, m) {
        run.report(v);
    }
}

/// operands for the perfect-power / near-perfect-power / tie sub-domains.
/// returns radicands as Dec (non-negative)
pub fn near_powers(k: u32, p: u64, seed: u64) -> Vec<Dec> {
    let mut out = vec![];
    let mut roots: Vec<BigInt> = vec![];
    for len in 1..=(p as usize + 2) {
        for (_, d) in patterns(len, seed) {
            roots.push(big(&d));
        }
        roots.push(big(&"3".repeat(len)));
    }
    // ties: roots with p+1 digits ending in 5
    for head in ["1", "2", "9", "10", "49", "99"] {
        let mut r = String::from(head);
        while r.len() < p as usize {
            r.push(if head.starts_with('9') { '9' } else { '0' });
        }
        r.truncate(p as usize);
        r.push('5');
        roots.push(big(&r));
    }
    roots.sort();
    roots.dedup();
    let far: Vec<u64> = vec![1, 2, p + 3, p + 6, k as u64 * p + 12, 40, 90];
    for r in roots {
        let mut pw = r.clone();
        for _ in 1..k {
            pw *= &r;
        }
        for s in [0i128, 3, -2, 7] {
            // scale of the power chosen so that all residues mod k occur
            out.push(Dec { n: pw.clone(), s: s * k as i128 });
            out.push(Dec { n: pw.clone(), s: s * k as i128 + 1 });
        }
        for j in far.iter() {
            // r^k +- m*10^-j : a small multiple of a unit in a far-away digit (m = 1 and multiples of
            // powers of 2 and 5, so that binary and decimal notions of 'trailing zeros' differ)
            for m in [1i64, 2, 4, 5, 8, 25, 1024, 1048576] {
                if m > 1 && r_small_skip(&out) {
                    continue;
                }
                let unit = Dec { n: BigInt::from(m), s: *j as i128 };
                let base = Dec { n: pw.clone(), s: 0 };
                out.push(base.add(&unit));
                let minus = base.sub(&unit);
                if minus.n.is_positive() {
                    out.push(minus);
                }
                // the same with trailing zeros written out after the perturbed digit
                out.push(Dec { n: base.add(&unit).n * pow10(19), s: base.add(&unit).s + 19 });
            }
        }
    }
    // algebraic and word-level neighbours of exact powers whose root is a short head times a power of ten (so
    // that its guard digits are all zero and the exactness test alone decides the last digit):
    //   R^k + c*R^(k-1)  (c = -1, 1, 2, 3): divisible by R^(k-1) without being a power;
    //   R^k +- 2^e       (e = 32, 64, 96, 128): the difference vanishes in a truncated word comparison;
    // R = head * 10^z for every z up to 24: R crosses every machine-word window
    let mut heads: Vec<BigInt> = vec![];
    for len in 1..=(p as usize).min(3) {
        for (_, d) in patterns(len, seed) {
            heads.push(big(&d));
        }
    }
    for head in ["1", "2", "9", "49"] {
        let mut r = String::from(head);
        while r.len() < p as usize {
            r.push('0');
        }
        r.truncate(p as usize);
        r.push('5');
        heads.push(big(&r));
    }
    heads.sort();
    heads.dedup();
    for h in heads {
        for z in 0..=24u64 {
            let r = &h * pow10(z);
            let mut rk1 = BigInt::from(1);
            for _ in 1..k {
                rk1 *= &r;
            }
            let pw = &rk1 * &r;
            let mut cands: Vec<BigInt> = vec![];
            for c in [-1i64, 1, 2, 3] {
                cands.push(&pw + &rk1 * c);
            }
            for e in [32usize, 64, 96, 128] {
                let w = BigInt::from(1) << e;
                cands.push(&pw + &w);
                if pw > w {
                    cands.push(&pw - &w);
                }
            }
            for n in cands {
                if !n.is_positive() {
                    continue;
                }
                // scales: residue 0 and residue 1 modulo k
                out.push(Dec { n: n.clone(), s: 0 });
                out.push(Dec { n: n.clone(), s: 2 * k as i128 });
                out.push(Dec { n, s: 1 });
            }
        }
    }
    out
}

fn r_small_skip(_out: &[Dec]) -> bool {
    false
}

/// long radicands: digit lengths around k*(p+g) and much longer, both parities / all residues of the scale
pub fn long_inputs(k: u32, p: u64, max_len: usize, seed: u64) -> Vec<Dec> {
    let guard_digits = if k == 2 { 5 } else { 4 };
    let base = k as usize * (p as usize + guard_digits);
    let mut lens: Vec<usize> = (base.saturating_sub(2)..=base + 4).collect();
    lens.extend([100, 211, 300]);
    if max_len > 300 {
        lens.push(max_len);
    }
    lens.retain(|l| *l >= 1 && *l <= max_len.max(base + 4));
    lens.sort();
    lens.dedup();
    let mut out = vec![];
    for l in lens {
        for (_, d) in patterns(l, seed) {
            let n = big(&d);
            for s in [0i128, 1, 2, -1, -2, l as i128, l as i128 + 1, l as i128 - 1, 2000 - (l as i128 % 7), -2000 + (l as i128 % 5)] {
                out.push(Dec { n: n.clone(), s });
            }
        }
    }
    let _ = BigInt::zero();
    out
}

/// Precisions p <= pmax at which the rounding of the k-th root of |x| is DELICATE: the `run` digits after the p-th
/// digit of the true root are 0..0, 9..9, 50..0 or 49..9 (computed by the model from the certified integer root), so
/// that the result hinges on the sticky / exactness information and on nothing else.
pub fn delicate_precisions(k: u32, x: &Dec, pmax: u64, run: usize) -> Vec<u64> {
    if x.n.is_zero() {
        return vec![];
    }
    let digits = root_rounded(&x.n.abs(), x.s, k, pmax + run as u64 + 2, Mode::Down).n.to_string();
    let d = digits.as_bytes();
    let mut out = vec![];
    for p in 1..=pmax as usize {
        let g = &d[p..p + run];
        let rest_all = |c: u8| g[1..].iter().all(|&b| b == c);
        if (g[0] == b'0' && rest_all(b'0')) || (g[0] == b'9' && rest_all(b'9')) || (g[0] == b'5' && rest_all(b'0')) || (g[0] == b'4' && rest_all(b'9')) {
            out.push(p as u64);
        }
    }
    out
}

/// every mode (and every entry point) at each delicate precision of the radicand; `t.states` counts radicands whose
/// root the model scanned, transitions the calls made into the subject
pub fn delicate_sweep(run: &Run, k: u32, x: &Dec, pmax: u64, t: &mut Tally) {
    t.states += 1;
    let ps = delicate_precisions(k, x, pmax, 4);
    if ps.is_empty() {
        return;
    }
    let mut t2 = Tally::default();
    sweep(run, k, x, &ps, true, &mut t2);
    t.transitions += t2.transitions;
    t.nontrivial += t2.nontrivial;
    if k == 3 {
        let mut t3 = Tally::default();
        sweep(run, k, &x.neg(), &ps, true, &mut t3);
        t.transitions += t3.transitions;
        t.nontrivial += t3.nontrivial;
    }
}
