//! Enumeration runner shared by all property drivers: sharded parallel exploration with panic
//! capture, watchdog, wall cap, violation grouping, replay files, known-finding matching and
//! evidence output.

use serde_json::{json, Map, Value};
use std::collections::BTreeMap;
use std::hash::{Hash, Hasher};
use std::panic::{catch_unwind, AssertUnwindSafe};
use std::path::PathBuf;
use std::sync::atomic::{AtomicBool, AtomicU64, AtomicUsize, Ordering::Relaxed, Ordering::SeqCst};
use std::sync::Mutex;
use std::time::{Duration, Instant};

pub const THREADS: usize = 16;

/// worker threads actually used (VERIF_THREADS overrides, for scaling measurements)
pub fn threads() -> usize {
    std::env::var("VERIF_THREADS").ok().and_then(|s| s.parse().ok()).unwrap_or(THREADS).clamp(1, THREADS)
}

#[derive(Clone, Copy, PartialEq, Eq, Debug)]
pub enum Tier {
    Quick,
    Thorough,
}
impl Tier {
    pub fn name(self) -> &'static str {
        match self {
            Tier::Quick => "quick",
            Tier::Thorough => "thorough",
        }
    }
    pub fn is_thorough(self) -> bool {
        self == Tier::Thorough
    }
    /// pick by tier
    pub fn pick<T>(self, quick: T, thorough: T) -> T {
        match self {
            Tier::Quick => quick,
            Tier::Thorough => thorough,
        }
    }
}

/// Per-item counters, accumulated locally and merged once per item
#[derive(Clone, Copy, Default, PartialEq, Eq, Debug)]
pub struct Tally {
    /// distinct input states / accumulator states / configurations enumerated
    pub states: u64,
    /// implementation calls executed and compared with the model
    pub transitions: u64,
    /// distinct cases that are non-trivial by the driver's stated rule
    pub nontrivial: u64,
    /// order-independent digest of the observed results (for the determinism self-check)
    pub digest: u64,
}
impl Tally {
    pub fn fold<H: Hash>(&mut self, h: &H) {
        let mut s = std::collections::hash_map::DefaultHasher::new();
        h.hash(&mut s);
        self.digest = self.digest.wrapping_add(s.finish());
    }
    pub fn merge(&mut self, o: &Tally) {
        self.states += o.states;
        self.transitions += o.transitions;
        self.nontrivial += o.nontrivial;
        self.digest = self.digest.wrapping_add(o.digest);
    }
}

#[derive(Clone, Debug)]
pub struct Violation {
    pub site: String,
    pub class: String,
    pub attrs: BTreeMap<String, Value>,
    /// replayable description of the single execution
    pub case: Value,
    pub expected: String,
    pub observed: String,
}
impl Violation {
    pub fn new(site: &str, class: &str, case: Value, expected: impl Into<String>, observed: impl Into<String>) -> Violation {
        Violation { site: site.into(), class: class.into(), attrs: BTreeMap::new(), case, expected: expected.into(), observed: observed.into() }
    }
    pub fn attr(mut self, k: &str, v: impl Into<Value>) -> Violation {
        self.attrs.insert(k.into(), v.into());
        self
    }
    fn size_key(&self) -> (usize, String) {
        let s = self.case.to_string();
        (s.len(), s)
    }
}

#[derive(Clone, Debug)]
struct KnownFinding {
    id: String,
    status: String,
    site: String,
    class: String,
    where_: Map<String, Value>,
    summary: String,
}

fn num_of(v: &Value) -> Option<f64> {
    match v {
        Value::Number(n) => n.to_string().parse::<f64>().ok(),
        Value::String(s) => s.parse::<f64>().ok(),
        _ => None,
    }
}
fn loose_eq(a: &Value, b: &Value) -> bool {
    if a == b {
        return true;
    }
    match (a, b) {
        (Value::String(x), y) | (y, Value::String(x)) => *x == y.to_string() || Some(x.as_str()) == y.as_str(),
        _ => match (num_of(a), num_of(b)) {
            (Some(x), Some(y)) => x == y,
            _ => false,
        },
    }
}

impl KnownFinding {
    fn matches(&self, v: &Violation) -> bool {
        if self.site != v.site || self.class != v.class {
            return false;
        }
        for (k, c) in self.where_.iter() {
            let a = match v.attrs.get(k) {
                Some(a) => a,
                None => return false,
            };
            let ok = match c {
                Value::Object(o) => {
                    let mut ok = true;
                    if let Some(mn) = o.get("min") {
                        ok &= matches!((num_of(a), num_of(mn)), (Some(x), Some(y)) if x >= y);
                    }
                    if let Some(mx) = o.get("max") {
                        ok &= matches!((num_of(a), num_of(mx)), (Some(x), Some(y)) if x <= y);
                    }
                    if let Some(Value::Array(xs)) = o.get("in") {
                        ok &= xs.iter().any(|x| loose_eq(x, a));
                    }
                    ok
                }
                other => loose_eq(other, a),
            };
            if !ok {
                return false;
            }
        }
        true
    }
}

struct Sub {
    name: String,
    size: usize,
    completed: usize,
    tally: Tally,
    wall_s: f64,
    deterministic_recheck: &'static str,
}

pub enum Invocation {
    Explore,
    Replay(Value),
}

pub struct Run {
    pub prop: &'static str,
    tier: Tier,
    seed: u64,
    start: Instant,
    wall_cap: Duration,
    root: PathBuf,
    total: Mutex<Tally>,
    subs: Mutex<Vec<Sub>>,
    unmatched: Mutex<Vec<Violation>>,
    unmatched_count: AtomicU64,
    known_seen: Mutex<BTreeMap<String, (u64, Option<Violation>)>>,
    samples: Mutex<Vec<Value>>,
    sample_budget: AtomicUsize,
    bounds: Mutex<Map<String, Value>>,
    assumptions: Mutex<Vec<String>>,
    caps: Mutex<Vec<String>>,
    rule: Mutex<String>,
    known: Vec<KnownFinding>,
    machinery_error: Mutex<Option<String>>,
    stop: AtomicBool,
    recheck: AtomicBool,
    conformance_literals: usize,
    /// true when invoked with --replay: nothing on disk (evidence, replay files) may be touched
    replay_mode: bool,
    model_vectors: Mutex<Option<std::thread::JoinHandle<Option<usize>>>>,
    extra: Mutex<Map<String, Value>>,
    /// Some(path) when this process is the sub-exploration of another build of the subject (see `Run::variant`):
    /// the summary goes to that file, evidence and replay files are the parent's business
    variant_out: Option<PathBuf>,
}

thread_local! {
    static LAST_PANIC: std::cell::RefCell<Option<String>> = const { std::cell::RefCell::new(None) };
    static IN_GUARD: std::cell::Cell<u32> = const { std::cell::Cell::new(0) };
}

/// Evaluate `f`, converting a panic into Err(message @ location).
pub fn guard<T>(f: impl FnOnce() -> T) -> Result<T, String> {
    IN_GUARD.with(|g| g.set(g.get() + 1));
    let r = catch_unwind(AssertUnwindSafe(f));
    IN_GUARD.with(|g| g.set(g.get() - 1));
    match r {
        Ok(v) => Ok(v),
        Err(_) => Err(LAST_PANIC.with(|p| p.borrow_mut().take()).unwrap_or_else(|| "panic (no message)".into())),
    }
}

/// glibc keeps freed chunks in a per-thread cache regardless of the arena they came from, and
/// `realloc` allocates the grown block from the arena of the OLD block.  A worker thread that frees a
/// few blocks allocated by the spawning thread (std::thread does) therefore keeps cycling blocks of the
/// main arena through its cache, and all workers end up serialised on the main arena's lock (measured:
/// 16 threads no faster than 1).  Emptying the cache once at thread start, by allocating and leaking
/// 8 blocks of every cached size class, removes the inherited blocks; refills then come from the
/// worker's own arena.
pub fn flush_inherited_tcache() {
    for sz in (8..=1032usize).step_by(16) {
        for _ in 0..8 {
            let v: Vec<u8> = Vec::with_capacity(sz);
            std::mem::forget(std::hint::black_box(v));
        }
    }
}

fn install_panic_hook() {
    let default = std::panic::take_hook();
    std::panic::set_hook(Box::new(move |info| {
        if IN_GUARD.with(|g| g.get()) > 0 {
            let msg = if let Some(s) = info.payload().downcast_ref::<&str>() {
                s.to_string()
            } else if let Some(s) = info.payload().downcast_ref::<String>() {
                s.clone()
            } else {
                "non-string panic".to_string()
            };
            let loc = info.location().map(|l| format!("{}:{}", l.file(), l.line())).unwrap_or_default();
            LAST_PANIC.with(|p| *p.borrow_mut() = Some(format!("{} @ {}", msg, loc)));
        } else {
            default(info);
        }
    }));
}

fn verif_root() -> PathBuf {
    std::env::var_os("VERIF_ROOT").map(PathBuf::from).unwrap_or_else(|| PathBuf::from("/verif"))
}

impl Run {
    /// Parse the command line (`quick|thorough` or `--replay FILE`), load the known findings, run the
    /// model conformance suite.
    pub fn start(prop: &'static str) -> (Run, Invocation) {
        install_panic_hook();
        let args: Vec<String> = std::env::args().skip(1).collect();
        let mut tier = match std::env::var("VERIF_TIER").ok().as_deref() {
            Some("thorough") => Tier::Thorough,
            _ => Tier::Quick,
        };
        let mut inv = Invocation::Explore;
        let mut i = 0;
        while i < args.len() {
            match args[i].as_str() {
                "quick" => tier = Tier::Quick,
                "thorough" => tier = Tier::Thorough,
                "--replay" => {
                    i += 1;
                    let path = args.get(i).unwrap_or_else(|| machinery_exit("--replay needs a file"));
                    let txt = std::fs::read_to_string(path).unwrap_or_else(|e| machinery_exit(&format!("cannot read {}: {}", path, e)));
                    let v: Value = serde_json::from_str(&txt).unwrap_or_else(|e| machinery_exit(&format!("bad replay file: {}", e)));
                    inv = Invocation::Replay(v);
                }
                other => machinery_exit(&format!("unknown argument {}", other)),
            }
            i += 1;
        }
        if let Invocation::Replay(v) = &inv {
            if let Some(variant) = v.get("case").and_then(|c| c.get("build_variant")).and_then(|x| x.as_str()) {
                if std::env::var_os("VERIF_IS_VARIANT").is_none() {
                    replay_in_variant(prop, variant, v);
                }
            }
        }
        let seed = std::env::var("VERIF_SEED").ok().and_then(|s| s.parse::<i64>().ok()).map(|x| x as u64).unwrap_or(0);
        let wall_cap = std::env::var("VERIF_WALL_CAP_S")
            .ok()
            .and_then(|s| s.parse::<u64>().ok())
            .unwrap_or(match tier {
                Tier::Quick => 240,
                Tier::Thorough => 3000,
            });
        let root = verif_root();
        // a variant sub-exploration leaves known-finding matching to its parent (which sees every violation)
        let known = if std::env::var_os("VERIF_VARIANT_OUT").is_some() { vec![] } else { load_known(&root, prop) };
        // the model must reproduce the maintainers' documented expectations before judging anything
        let lits = match catch_unwind(spec::conformance::run) {
            Ok(n) => n,
            Err(_) => machinery_exit("model conformance suite failed"),
        };
        // ... and ~38000 expectations computed by an independent implementation (Python's decimal / fractions /
        // struct, see tools/gen_model_vectors.py); replayed on a side thread while the exploration runs, joined
        // before any verdict is printed
        let vectors = std::thread::spawn(|| catch_unwind(spec::vectors::run).ok());
        let run = Run {
            prop,
            tier,
            seed,
            start: Instant::now(),
            wall_cap: Duration::from_secs(wall_cap),
            root,
            total: Mutex::new(Tally::default()),
            subs: Mutex::new(vec![]),
            unmatched: Mutex::new(vec![]),
            unmatched_count: AtomicU64::new(0),
            known_seen: Mutex::new(BTreeMap::new()),
            samples: Mutex::new(vec![]),
            sample_budget: AtomicUsize::new(0),
            bounds: Mutex::new(Map::new()),
            assumptions: Mutex::new(vec![]),
            caps: Mutex::new(vec![]),
            rule: Mutex::new(String::new()),
            known,
            machinery_error: Mutex::new(None),
            stop: AtomicBool::new(false),
            recheck: AtomicBool::new(false),
            conformance_literals: lits,
            replay_mode: matches!(inv, Invocation::Replay(_)),
            model_vectors: Mutex::new(Some(vectors)),
            extra: Mutex::new(Map::new()),
            variant_out: std::env::var_os("VERIF_VARIANT_OUT").map(PathBuf::from),
        };
        (run, inv)
    }

    pub fn tier(&self) -> Tier {
        self.tier
    }
    pub fn seed(&self) -> u64 {
        self.seed
    }
    pub fn bound(&self, k: &str, v: impl Into<Value>) {
        self.bounds.lock().unwrap().insert(k.into(), v.into());
    }
    pub fn extra(&self, k: &str, v: impl Into<Value>) {
        self.extra.lock().unwrap().insert(k.into(), v.into());
    }
    pub fn assume(&self, s: &str) {
        self.assumptions.lock().unwrap().push(s.into());
    }
    pub fn rule(&self, s: &str) {
        *self.rule.lock().unwrap() = s.into();
    }
    pub fn cap_hit(&self, s: String) {
        eprintln!("[{}] CAP: {}", self.prop, s);
        self.caps.lock().unwrap().push(s);
    }
    pub fn over_budget(&self) -> bool {
        self.start.elapsed() > self.wall_cap
    }
    pub fn elapsed_s(&self) -> f64 {
        self.start.elapsed().as_secs_f64()
    }
    pub fn machinery_error(&self, s: String) {
        eprintln!("[{}] MACHINERY ERROR: {}", self.prop, s);
        let mut g = self.machinery_error.lock().unwrap();
        if g.is_none() {
            *g = Some(s);
        }
    }

    /// record an actual explored case (kept only while the per-subdomain sample budget lasts)
    pub fn sample(&self, f: impl FnOnce() -> Value) {
        if self.sample_budget.load(Relaxed) == 0 {
            return;
        }
        if self
            .sample_budget
            .fetch_update(Relaxed, Relaxed, |x| if x > 0 { Some(x - 1) } else { None })
            .is_ok()
        {
            self.samples.lock().unwrap().push(f());
        }
    }

    pub fn report(&self, v: Violation) {
        if self.recheck.load(Relaxed) {
            return; // duplicates produced by the determinism re-run of item 0
        }
        for k in self.known.iter() {
            if k.status == "open" && k.matches(&v) {
                let mut g = self.known_seen.lock().unwrap();
                let e = g.entry(k.id.clone()).or_insert((0, None));
                e.0 += 1;
                let better = match &e.1 {
                    None => true,
                    Some(old) => v.size_key() < old.size_key(),
                };
                if better {
                    e.1 = Some(v);
                }
                return;
            }
        }
        let c = self.unmatched_count.fetch_add(1, Relaxed);
        if c < 5000 {
            self.unmatched.lock().unwrap().push(v);
        }
    }

    /// Re-run this driver's whole exploration against ANOTHER BUILD of the subject (`mc/variants/<variant>`, e.g.
    /// the crate without its `std` feature) as a child process and merge what it covered and found: sub-domains are
    /// prefixed with the variant name, violations carry `build_variant` in their case so that `--replay` is routed
    /// back to the same build.
    pub fn variant(&self, variant: &str) {
        if self.variant_out.is_some() || self.replay_mode {
            return;
        }
        let bin = self.prop.to_lowercase();
        let exe = match build_variant(&self.root, variant, &bin) {
            Ok(e) => e,
            Err(m) => return self.machinery_error(m),
        };
        let out = self.root.join(format!("mc/target/variant-{}-{}.summary.json", variant, bin));
        let _ = std::fs::remove_file(&out);
        let remaining = self.wall_cap.saturating_sub(self.start.elapsed()).as_secs().max(30);
        let t0 = Instant::now();
        let st = std::process::Command::new(&exe)
            .arg(self.tier.name())
            .env("VERIF_VARIANT_OUT", &out)
            .env("VERIF_IS_VARIANT", variant)
            .env("VERIF_ROOT", &self.root)
            .env("VERIF_SEED", (self.seed as i64).to_string())
            .env("VERIF_WALL_CAP_S", remaining.to_string())
            .stdout(std::process::Stdio::null())
            .stderr(std::process::Stdio::null())
            .status();
        match st {
            Ok(s) if s.success() => {}
            Ok(s) => return self.machinery_error(format!("variant build '{}' of driver {} exited with {:?}", variant, bin, s.code())),
            Err(e) => return self.machinery_error(format!("cannot run variant driver {}: {}", exe.display(), e)),
        }
        let sum: Value = match std::fs::read_to_string(&out).ok().and_then(|t| serde_json::from_str(&t).ok()) {
            Some(v) => v,
            None => return self.machinery_error(format!("variant driver {} left no summary", exe.display())),
        };
        if let Some(m) = sum["machinery_error"].as_str() {
            return self.machinery_error(format!("[{} build] {}", variant, m));
        }
        for c in sum["caps_hit"].as_array().cloned().unwrap_or_default() {
            self.cap_hit(format!("[{} build] {}", variant, c.as_str().unwrap_or("?")));
        }
        if sum["aborted"].as_bool().unwrap_or(false) {
            self.cap_hit(format!("[{} build] exploration aborted", variant));
        }
        let mut tot = Tally::default();
        for sd in sum["subdomains"].as_array().cloned().unwrap_or_default() {
            let tally = Tally { states: sd["states"].as_u64().unwrap_or(0), transitions: sd["transitions"].as_u64().unwrap_or(0), nontrivial: sd["nontrivial"].as_u64().unwrap_or(0), digest: 0 };
            tot.merge(&tally);
            self.subs.lock().unwrap().push(Sub {
                name: format!("[{} build] {}", variant, sd["name"].as_str().unwrap_or("?")),
                size: sd["items"].as_u64().unwrap_or(0) as usize,
                completed: sd["completed"].as_u64().unwrap_or(0) as usize,
                tally,
                wall_s: sd["wall_s"].as_f64().unwrap_or(0.0),
                deterministic_recheck: match sd["determinism_recheck_item0"].as_str() {
                    Some("identical") => "identical",
                    Some("skipped") => "skipped",
                    Some("n/a") => "n/a",
                    _ => "see variant summary",
                },
            });
        }
        if tot.transitions == 0 && sum["violations_total"].as_u64().unwrap_or(0) == 0 {
            return self.machinery_error(format!("variant build '{}' explored nothing", variant));
        }
        self.total.lock().unwrap().merge(&tot);
        for v in sum["violations"].as_array().cloned().unwrap_or_default() {
            let mut viol = Violation::new(
                &format!("[{} build] {}", variant, v["site"].as_str().unwrap_or("?")),
                v["class"].as_str().unwrap_or("?"),
                json!({"build_variant": variant, "case": v["case"], "site": v["site"], "class": v["class"], "attrs": v["attrs"]}),
                v["expected"].as_str().unwrap_or(""),
                v["observed"].as_str().unwrap_or(""),
            );
            for (k, a) in v["attrs"].as_object().cloned().unwrap_or_default() {
                viol = viol.attr(&k, a);
            }
            self.report(viol.attr("build_variant", variant));
        }
        // violations beyond the ten per class that the child stored still count
        let stored = sum["violations"].as_array().map(|a| a.len() as u64).unwrap_or(0);
        let extra = sum["violations_total"].as_u64().unwrap_or(0).saturating_sub(stored);
        self.unmatched_count.fetch_add(extra, Relaxed);
        self.extra.lock().unwrap().insert(
            format!("variant_{}", variant),
            json!({"states": tot.states, "transitions": tot.transitions, "nontrivial": tot.nontrivial, "exhaustive": sum["exhaustive"], "wall_s": t0.elapsed().as_secs_f64(),
                   "how": format!("the same driver source built in mc/variants/{} against /repo with that feature set, run as a child process over the same domain", variant)}),
        );
    }

    pub fn violations_so_far(&self) -> u64 {
        self.unmatched_count.load(Relaxed)
    }

    /// Explore items 0..n of a sub-domain in parallel.  `f(i)` evaluates every case of item i and
    /// returns its tally.  Items are handed out in ascending order (simplest first).  Each item must
    /// finish within `limit_s` seconds or the watchdog reports a termination violation for it.
    pub fn par<F>(&self, name: &str, n: usize, f: F)
    where
        F: Fn(usize) -> Tally + Sync,
    {
        self.par_opts(name, n, 900, &|i| json!({"subdomain": name, "item": i}), f)
    }

    pub fn par_opts<F>(&self, name: &str, n: usize, limit_s: u64, describe: &(dyn Fn(usize) -> Value + Sync), f: F)
    where
        F: Fn(usize) -> Tally + Sync,
    {
        let t0 = Instant::now();
        self.sample_budget.store(3, Relaxed);
        let next = AtomicUsize::new(0);
        let done = AtomicUsize::new(0);
        let tally = Mutex::new(Tally::default());
        let finished = AtomicBool::new(false);
        let capped = AtomicBool::new(false);
        let nworkers = threads().min(n.max(1));
        let alive = AtomicUsize::new(nworkers);
        // per-worker heartbeat: (item+1, start millis since t0); 0 = idle
        let beats: Vec<(AtomicUsize, AtomicU64)> = (0..THREADS).map(|_| (AtomicUsize::new(0), AtomicU64::new(0))).collect();
        let first_tally: Mutex<Option<Tally>> = Mutex::new(None);
        std::thread::scope(|sc| {
            for w in 0..nworkers {
                let (next, done, tally, beats, f, first_tally, capped, alive) = (&next, &done, &tally, &beats, &f, &first_tally, &capped, &alive);
                std::thread::Builder::new()
                    .stack_size(64 << 20)
                    .spawn_scoped(sc, move || {
                      flush_inherited_tcache();
                      loop {
                        if self.stop.load(Relaxed) {
                            break;
                        }
                        if self.over_budget() {
                            capped.store(true, Relaxed);
                            break;
                        }
                        let i = next.fetch_add(1, Relaxed);
                        if i >= n {
                            break;
                        }
                        beats[w].1.store(t0.elapsed().as_millis() as u64, Relaxed);
                        beats[w].0.store(i + 1, SeqCst);
                        let r = guard(|| f(i));
                        beats[w].0.store(0, SeqCst);
                        match r {
                            Ok(t) => {
                                if i == 0 {
                                    *first_tally.lock().unwrap() = Some(t);
                                }
                                tally.lock().unwrap().merge(&t);
                                done.fetch_add(1, Relaxed);
                            }
                            Err(msg) => {
                                // a panic that escaped the driver's own guards is a harness bug
                                self.machinery_error(format!("driver panicked in {} item {}: {}", name, i, msg));
                                self.stop.store(true, Relaxed);
                            }
                        }
                      }
                      alive.fetch_sub(1, SeqCst);
                    })
                    .unwrap();
            }
            // watchdog
            let (beats, finished) = (&beats, &finished);
            sc.spawn(move || {
                while !finished.load(Relaxed) {
                    std::thread::sleep(Duration::from_millis(200));
                    let now = t0.elapsed().as_millis() as u64;
                    for b in beats.iter() {
                        let it = b.0.load(SeqCst);
                        if it != 0 && now.saturating_sub(b.1.load(Relaxed)) > limit_s * 1000 {
                            let v = Violation::new("watchdog", "nonterminating", describe(it - 1), format!("returns within {} s", limit_s), "still running".to_string());
                            self.report(v);
                            self.cap_hit(format!("watchdog fired in {} item {}", name, it - 1));
                            self.finish_inner(true);
                        }
                    }
                }
            });
            while alive.load(SeqCst) > 0 {
                std::thread::sleep(Duration::from_millis(5));
            }
            finished.store(true, Relaxed);
        });
        let completed = done.load(Relaxed);
        let mut recheck = "skipped";
        // determinism self-check: evaluate item 0 again, tallies (incl. result digest) must be identical
        if completed > 0 && !self.stop.load(Relaxed) {
            if let Some(t_first) = *first_tally.lock().unwrap() {
                self.recheck.store(true, SeqCst);
                self.sample_budget.store(0, Relaxed);
                match guard(|| f(0)) {
                    Ok(t2) if t2 == t_first => recheck = "identical",
                    Ok(t2) => {
                        recheck = "DIFFERENT";
                        self.machinery_error(format!("nondeterminism in {} item 0: {:?} vs {:?}", name, t_first, t2));
                    }
                    Err(m) => self.machinery_error(format!("driver panicked on re-run of {} item 0: {}", name, m)),
                }
                self.recheck.store(false, SeqCst);
            }
        }
        let t = *tally.lock().unwrap();
        self.total.lock().unwrap().merge(&t);
        if completed < n && !self.stop.load(Relaxed) {
            self.cap_hit(format!("wall cap {} s reached in sub-domain {}: {}/{} items completed", self.wall_cap.as_secs(), name, completed, n));
        }
        eprintln!(
            "[{}] {:<28} items {:>8}/{:<8} states {:>11} transitions {:>12} nontrivial {:>11} {:>7.1}s",
            self.prop,
            name,
            completed,
            n,
            t.states,
            t.transitions,
            t.nontrivial,
            t0.elapsed().as_secs_f64()
        );
        self.subs.lock().unwrap().push(Sub { name: name.into(), size: n, completed, tally: t, wall_s: t0.elapsed().as_secs_f64(), deterministic_recheck: recheck });
    }

    /// sequential sub-domain (for tiny sets or engines that parallelise themselves)
    pub fn seq(&self, name: &str, f: impl FnOnce() -> Tally) {
        let t0 = Instant::now();
        self.sample_budget.store(3, Relaxed);
        match guard(f) {
            Ok(t) => {
                self.total.lock().unwrap().merge(&t);
                eprintln!("[{}] {:<28} states {:>11} transitions {:>12} nontrivial {:>11} {:>7.1}s", self.prop, name, t.states, t.transitions, t.nontrivial, t0.elapsed().as_secs_f64());
                self.subs.lock().unwrap().push(Sub { name: name.into(), size: 1, completed: 1, tally: t, wall_s: t0.elapsed().as_secs_f64(), deterministic_recheck: "n/a" });
            }
            Err(m) => self.machinery_error(format!("driver panicked in {}: {}", name, m)),
        }
    }

    /// Write evidence, replay files, print verdict lines, exit.
    pub fn finish(&self) -> ! {
        self.finish_inner(false)
    }

    fn finish_inner(&self, aborted: bool) -> ! {
        static ONCE: AtomicBool = AtomicBool::new(false);
        if ONCE.swap(true, SeqCst) {
            // another thread is already finishing
            loop {
                std::thread::sleep(Duration::from_secs(1));
            }
        }
        if self.replay_mode {
            // a replay that went through the ordinary reporting path (drivers that re-run a tiny sub-domain):
            // print the verdict only; evidence and replay files on disk stay as the exploring run left them
            if let Some(m) = self.machinery_error.lock().unwrap().clone() {
                machinery_exit(&m);
            }
            let unmatched = self.unmatched.lock().unwrap().clone();
            for (id, (cnt, ex)) in self.known_seen.lock().unwrap().iter() {
                if let Some(ex) = ex {
                    println!("KNOWN-FINDING: property={} id={} occurrences={} case={}", self.prop, id, cnt, ex.case);
                }
            }
            if unmatched.is_empty() {
                println!("REPLAY-OK property={} : no violation", self.prop);
                std::process::exit(0);
            }
            for v in unmatched.iter().take(10) {
                println!("VIOLATION property={} replay=(replayed) site={} class={} case={} expected={} observed={}", self.prop, v.site, v.class, v.case, clip(&v.expected), clip(&v.observed));
            }
            std::process::exit(1);
        }
        let total = *self.total.lock().unwrap();
        let subs = self.subs.lock().unwrap();
        let caps = self.caps.lock().unwrap().clone();
        let exhaustive = caps.is_empty() && !aborted && subs.iter().all(|s| s.completed == s.size);
        if let Some(out) = &self.variant_out {
            // sub-exploration of another build of the subject: hand everything to the parent driver
            let nvec = match self.model_vectors.lock().unwrap().take().map(|h| h.join()) {
                Some(Ok(Some(n))) => n,
                _ => machinery_exit("the model disagrees with the independent expectation vectors (variant build)"),
            };
            let mut unmatched = self.unmatched.lock().unwrap().clone();
            unmatched.sort_by_key(|v| v.size_key());
            unmatched.dedup_by_key(|v| (v.site.clone(), v.class.clone(), v.case.to_string()));
            let mut per_group: BTreeMap<(String, String), usize> = BTreeMap::new();
            let viol: Vec<Value> = unmatched
                .iter()
                .filter(|v| {
                    let n = per_group.entry((v.site.clone(), v.class.clone())).or_default();
                    *n += 1;
                    *n <= 10
                })
                .map(|v| json!({"site": v.site, "class": v.class, "attrs": v.attrs, "case": v.case, "expected": v.expected, "observed": v.observed}))
                .collect();
            let summary = json!({
                "states": total.states, "transitions": total.transitions, "nontrivial": total.nontrivial,
                "exhaustive": exhaustive, "aborted": aborted, "caps_hit": caps,
                "violations_total": self.unmatched_count.load(Relaxed),
                "violations": viol,
                "machinery_error": self.machinery_error.lock().unwrap().clone(),
                "model_independent_vectors_checked": nvec,
                "wall_s": self.start.elapsed().as_secs_f64(),
                "subdomains": subs.iter().map(|s| json!({"name": s.name, "items": s.size, "completed": s.completed, "states": s.tally.states, "transitions": s.tally.transitions, "nontrivial": s.tally.nontrivial, "wall_s": s.wall_s, "determinism_recheck_item0": s.deterministic_recheck})).collect::<Vec<_>>(),
            });
            if let Err(e) = std::fs::write(out, summary.to_string()) {
                machinery_exit(&format!("cannot write variant summary {}: {}", out.display(), e));
            }
            std::process::exit(0);
        }
        let replay_dir = self.root.join("replays");
        let _ = std::fs::create_dir_all(&replay_dir);
        // remove stale replay files of this property
        if let Ok(rd) = std::fs::read_dir(&replay_dir) {
            for e in rd.flatten() {
                if e.file_name().to_string_lossy().starts_with(&format!("{}-", self.prop)) {
                    let _ = std::fs::remove_file(e.path());
                }
            }
        }
        // known findings
        let known_seen = self.known_seen.lock().unwrap();
        let mut known_json = vec![];
        for k in self.known.iter().filter(|k| k.status == "open") {
            if let Some((cnt, ex)) = known_seen.get(&k.id) {
                let ex = ex.as_ref().unwrap();
                println!("KNOWN-FINDING: property={} id={} site={} class={} occurrences={} smallest={} :: {}", self.prop, k.id, k.site, k.class, cnt, ex.case, k.summary);
                known_json.push(json!({"id": k.id, "occurrences": cnt, "smallest_case": ex.case, "expected": ex.expected, "observed": ex.observed}));
            } else {
                println!("KNOWN-FINDING: property={} id={} site={} class={} occurrences=0 (not reached by this tier's domain) :: {}", self.prop, k.id, k.site, k.class, k.summary);
                known_json.push(json!({"id": k.id, "occurrences": 0}));
            }
        }
        // unmatched violations: group by (site, class), smallest first, at most 10 replay files per group
        let mut unmatched = self.unmatched.lock().unwrap().clone();
        unmatched.sort_by_key(|v| v.size_key());
        unmatched.dedup_by_key(|v| (v.site.clone(), v.class.clone(), v.case.to_string()));
        let mut groups: BTreeMap<(String, String), Vec<&Violation>> = BTreeMap::new();
        for v in unmatched.iter() {
            groups.entry((v.site.clone(), v.class.clone())).or_default().push(v);
        }
        let nviol = self.unmatched_count.load(Relaxed);
        let mut viol_json = vec![];
        for ((site, class), vs) in groups.iter() {
            eprintln!("[{}] violation class site={} class={} count(stored)={}", self.prop, site, class, vs.len());
            for v in vs.iter().take(10) {
                let body = json!({"property": self.prop, "site": v.site, "class": v.class, "attrs": v.attrs, "case": v.case, "expected": v.expected, "observed": v.observed});
                let mut h = std::collections::hash_map::DefaultHasher::new();
                body.to_string().hash(&mut h);
                let path = replay_dir.join(format!("{}-{:016x}.json", self.prop, h.finish()));
                let _ = std::fs::write(&path, serde_json::to_string_pretty(&body).unwrap());
                println!("VIOLATION property={} replay={}", self.prop, path.display());
                println!("  site={} class={} case={} expected={} observed={}", v.site, v.class, v.case, clip(&v.expected), clip(&v.observed));
                viol_json.push(body);
            }
        }
        let mach = self.machinery_error.lock().unwrap().clone();
        let mut cov = Map::new();
        cov.insert("states".into(), json!(total.states));
        cov.insert("transitions".into(), json!(total.transitions));
        cov.insert("traces_validated_against_impl".into(), json!(total.transitions));
        cov.insert("evaluations".into(), json!(total.transitions));
        cov.insert("distinct_nontrivial".into(), json!(total.nontrivial));
        cov.insert("rule".into(), json!(self.rule.lock().unwrap().clone()));
        cov.insert("exhaustive".into(), json!(exhaustive));
        cov.insert("bounds".into(), Value::Object(self.bounds.lock().unwrap().clone()));
        cov.insert(
            "subdomains".into(),
            Value::Array(
                subs.iter()
                    .map(|s| json!({"name": s.name, "items": s.size, "completed": s.completed, "states": s.tally.states, "transitions": s.tally.transitions, "nontrivial": s.tally.nontrivial, "wall_s": s.wall_s, "determinism_recheck_item0": s.deterministic_recheck}))
                    .collect(),
            ),
        );
        cov.insert("samples".into(), Value::Array(self.samples.lock().unwrap().clone()));
        cov.insert("known_findings_seen".into(), Value::Array(known_json));
        cov.insert("caps_hit".into(), json!(caps));
        cov.insert("violation_examples".into(), Value::Array(viol_json.into_iter().take(20).collect()));
        cov.insert("model_conformance_literals_checked".into(), json!(self.conformance_literals));
        let nvec = match self.model_vectors.lock().unwrap().take().map(|h| h.join()) {
            Some(Ok(Some(n))) => n,
            _ => machinery_exit("the model disagrees with the independent expectation vectors (mc/spec/src/vectors.txt)"),
        };
        cov.insert("model_independent_vectors_checked".into(), json!(nvec));
        cov.insert("explanation".into(), json!("every explored state/transition is an execution of the real implementation compared with the reference model; exploration is bounded-exhaustive over the stated finite domain"));
        for (k, v) in self.extra.lock().unwrap().iter() {
            cov.insert(k.clone(), v.clone());
        }
        if let Some(m) = &mach {
            cov.insert("machinery_error".into(), json!(m));
        }
        let ev = json!({
            "property_id": self.prop,
            "tier": self.tier.name(),
            "seed": self.seed as i64,
            "level": "model_checking",
            "coverage": Value::Object(cov),
            "assumptions": self.assumptions.lock().unwrap().clone(),
            "wall_s": self.start.elapsed().as_secs_f64(),
            "violations": nviol,
        });
        let evdir = self.root.join("evidence");
        let _ = std::fs::create_dir_all(&evdir);
        let evpath = evdir.join(format!("{}.json", self.prop));
        if let Err(e) = std::fs::write(&evpath, serde_json::to_string_pretty(&ev).unwrap()) {
            eprintln!("cannot write evidence {}: {}", evpath.display(), e);
            std::process::exit(3);
        }
        eprintln!(
            "[{}] {} tier: states={} transitions={} nontrivial={} violations={} known={} exhaustive={} wall={:.1}s",
            self.prop,
            self.tier.name(),
            total.states,
            total.transitions,
            total.nontrivial,
            nviol,
            known_seen.values().map(|x| x.0).sum::<u64>(),
            exhaustive,
            self.start.elapsed().as_secs_f64()
        );
        if let Some(m) = mach {
            eprintln!("[{}] machinery failure: {}", self.prop, m);
            std::process::exit(2);
        }
        if nviol > 0 {
            std::process::exit(1);
        }
        if total.transitions == 0 {
            eprintln!("[{}] machinery failure: nothing explored", self.prop);
            std::process::exit(2);
        }
        println!("OK property={} tier={} states={} transitions={}", self.prop, self.tier.name(), total.states, total.transitions);
        std::process::exit(0);
    }

    /// Replay mode: run `check` on the stored case; prints the verdict and exits.
    pub fn replay(&self, file: &Value, check: impl FnOnce(&Value) -> Vec<Violation> + Send) -> ! {
        let case = file.get("case").cloned().unwrap_or_else(|| machinery_exit("replay file has no case"));
        // a replayed call that does not come back is the violation itself (termination is part of C12/C13): wait
        // on a watchdog, as the explorer does
        let limit = Duration::from_secs(std::env::var("VERIF_REPLAY_LIMIT_S").ok().and_then(|s| s.parse().ok()).unwrap_or(90));
        let prop = self.prop;
        let vs = std::thread::scope(|sc| {
            let (tx, rx) = std::sync::mpsc::channel();
            let case_ref = &case;
            sc.spawn(move || {
                let _ = tx.send(guard(|| check(case_ref)));
            });
            match rx.recv_timeout(limit) {
                Ok(Ok(v)) => v,
                Ok(Err(m)) => machinery_exit(&format!("replay panicked outside the subject: {}", m)),
                Err(_) => {
                    println!("VIOLATION property={} replay=(replayed) site=watchdog class=nonterminating case={} expected=returns within {} s observed=still running", prop, case_ref, limit.as_secs());
                    std::process::exit(1);
                }
            }
        });
        if vs.is_empty() {
            println!("REPLAY-OK property={} case={} : no violation", self.prop, case);
            std::process::exit(0);
        }
        let mut unlisted = 0;
        for v in vs.iter() {
            let known = self.known.iter().find(|k| k.status == "open" && k.matches(v));
            match known {
                Some(k) => println!("KNOWN-FINDING: property={} id={} case={} expected={} observed={}", self.prop, k.id, v.case, clip(&v.expected), clip(&v.observed)),
                None => {
                    unlisted += 1;
                    println!("VIOLATION property={} replay=(replayed) site={} class={} case={} expected={} observed={}", self.prop, v.site, v.class, v.case, clip(&v.expected), clip(&v.observed));
                }
            }
        }
        std::process::exit(if unlisted > 0 { 1 } else { 0 })
    }
}

/// cargo-build one driver of a variant package; returns the executable
fn build_variant(root: &PathBuf, variant: &str, bin: &str) -> Result<PathBuf, String> {
    let target = root.join(format!("mc/target/variant-{}", variant));
    let manifest = root.join(format!("mc/variants/{}/Cargo.toml", variant));
    let mut cmd = std::process::Command::new("cargo");
    cmd.args(["build", "--release", "--offline", "--quiet", "--bin", bin, "--manifest-path"]).arg(&manifest).env("CARGO_TARGET_DIR", &target).env("CARGO_NET_OFFLINE", "true");
    // build-time configuration of the subject for this variant (RUST_BIGDECIMAL_* read by its build.rs and, through
    // option_env!, by the drivers): KEY=VALUE lines in mc/variants/<variant>/build.env
    if let Ok(txt) = std::fs::read_to_string(root.join(format!("mc/variants/{}/build.env", variant))) {
        for line in txt.lines() {
            if let Some((k, v)) = line.trim().split_once('=') {
                if !k.starts_with('#') {
                    cmd.env(k.trim(), v.trim());
                }
            }
        }
    }
    let out = cmd
        .output()
        .map_err(|e| format!("cannot run cargo: {}", e))?;
    if !out.status.success() {
        return Err(format!("variant build '{}' of driver {} failed: {}", variant, bin, String::from_utf8_lossy(&out.stderr).chars().take(1500).collect::<String>()));
    }
    Ok(target.join("release").join(bin))
}

/// `--replay` of a violation found in a variant build: unwrap the case and hand it to that build's driver
fn replay_in_variant(prop: &str, variant: &str, file: &Value) -> ! {
    let root = verif_root();
    let bin = prop.to_lowercase();
    let exe = build_variant(&root, variant, &bin).unwrap_or_else(|m| machinery_exit(&m));
    let inner = &file["case"];
    let body = json!({"property": prop, "site": inner["site"], "class": inner["class"], "attrs": inner["attrs"], "case": inner["case"], "expected": file["expected"], "observed": file["observed"]});
    let tmp = root.join(format!("mc/target/variant-{}-{}.replay-{}.json", variant, bin, std::process::id()));
    std::fs::write(&tmp, body.to_string()).unwrap_or_else(|e| machinery_exit(&format!("cannot write {}: {}", tmp.display(), e)));
    let st = std::process::Command::new(&exe).arg("--replay").arg(&tmp).env("VERIF_IS_VARIANT", variant).env("VERIF_ROOT", &root).env_remove("VERIF_VARIANT_OUT").status();
    let _ = std::fs::remove_file(&tmp);
    match st {
        Ok(s) => std::process::exit(s.code().unwrap_or(2)),
        Err(e) => machinery_exit(&format!("cannot run {}: {}", exe.display(), e)),
    }
}

fn clip(s: &str) -> String {
    if s.len() > 300 {
        let mut end = 300;
        while !s.is_char_boundary(end) {
            end -= 1;
        }
        format!("{}…({} chars)", &s[..end], s.len())
    } else {
        s.to_string()
    }
}

pub fn machinery_exit(msg: &str) -> ! {
    eprintln!("MACHINERY ERROR: {}", msg);
    std::process::exit(2)
}

fn load_known(root: &PathBuf, prop: &str) -> Vec<KnownFinding> {
    let p = root.join("known_findings.json");
    let txt = match std::fs::read_to_string(&p) {
        Ok(t) => t,
        Err(_) => return vec![],
    };
    let v: Value = serde_json::from_str(&txt).unwrap_or_else(|e| machinery_exit(&format!("known_findings.json: {}", e)));
    let mut out = vec![];
    for f in v.get("findings").and_then(|x| x.as_array()).cloned().unwrap_or_default() {
        if f.get("property").and_then(|x| x.as_str()) != Some(prop) {
            continue;
        }
        let g = |k: &str| f.get(k).and_then(|x| x.as_str()).unwrap_or("").to_string();
        let where_ = f.get("where").and_then(|x| x.as_object()).cloned().unwrap_or_default();
        let status = g("status");
        if status == "open" && where_.is_empty() {
            machinery_exit(&format!("known finding {} has an empty where clause", g("id")));
        }
        out.push(KnownFinding { id: g("id"), status, site: g("site"), class: g("class"), where_, summary: g("summary") });
    }
    out
}

/// Deterministic filler digits for "arbitrary digits" alphabet symbols (LCG stream keyed by seed)
pub fn filler_digits(seed: u64, stream: u64, len: usize) -> String {
    let mut x = seed.wrapping_mul(6364136223846793005).wrapping_add(stream.wrapping_mul(1442695040888963407)).wrapping_add(0x9E3779B97F4A7C15);
    let mut s = String::with_capacity(len);
    for i in 0..len {
        x = x.wrapping_mul(6364136223846793005).wrapping_add(1442695040888963407);
        let mut d = ((x >> 33) % 10) as u8;
        if i == 0 && d == 0 {
            d = 7;
        }
        s.push((b'0' + d) as char);
    }
    s
}
