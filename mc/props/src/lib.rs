pub mod engine;
pub mod conv;
pub mod alpha;
pub mod roots;
pub mod fmt_templates;
pub mod shapes;
pub mod faulty;
