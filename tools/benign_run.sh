#!/bin/bash
# benign_run.sh <Cxx> <A|B> [check ids...] : copy a property-preserving change from /tmp/o3-<Cxx> into
# /verif/benign/<Cxx>-<v>/, apply it to /repo, run the given checks (default: the property's own) quick,
# revert.  A check that exits non-zero on such a change is a FALSE ALARM of the machinery.
set -u
P=$1; V=$2; shift 2
CHECKS=${*:-$P}
SRC=${BENIGN_SRC:-/tmp/o3-$P}
D=/verif/benign/$P-$V
mkdir -p $D
cp $SRC/$V.diff $D/patch.diff || exit 2
cp $SRC/witness_$V.rs $D/witness.rs 2>/dev/null
[ -f $SRC/REPORT.md ] && cp $SRC/REPORT.md $D/agent_report.md
cd /repo; git diff --quiet || { echo "/repo dirty"; exit 2; }
git apply $D/patch.diff || { echo "$P-$V patch does not apply"; exit 2; }
res=""
for c in $CHECKS; do
  (cd /verif && ./check $c quick > $D/check_$c.out 2> $D/check_$c.err); rc=$?
  nv=$(grep -c '^VIOLATION' $D/check_$c.out)
  res="$res $c:exit=$rc:violations=$nv"
done
git checkout -- .
echo "$P-$V$res" | tee $D/result.txt
