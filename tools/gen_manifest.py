#!/usr/bin/env python3
"""Regenerates /verif/MANIFEST.json from the table below; a property is claimed iff its driver exists."""
import json, os
ROOT = os.path.dirname(os.path.dirname(os.path.abspath(__file__)))
BASE = "cd /repo && cargo nextest run --workspace --no-fail-fast --test-threads 8 --offline || cargo test --workspace --no-fail-fast --offline"
T = {
 "C01": ("bounded-exhaustive enumeration of operand pairs x every operator overload (and of two-operation histories over related scale gaps) against exact integer arithmetic",
         "all pairs over a small-scope operand set plus a scale-gap alphabet built from the code's decision constants, through every + - * overload (decimal, ref, BigInt, 10 primitive types, compound forms), compared with the exact integer result"),
 "C02": ("bounded-exhaustive enumeration of decimal pairs (small scope + limb-boundary alphabet) against the real-number order",
         "all ordered pairs of a small-scope set x 12 comparison predicates, plus the limb-boundary / scale-extreme alphabets that drive the word-wise comparison through every carry outcome"),
 "C03": ("bounded-exhaustive enumeration of value-equal representation families through a recording Hasher",
         "every family of value-equal representations in the stated bounds must feed byte-identical streams to a recording hasher and collapse in a HashSet"),
 "C04": ("bounded-exhaustive enumeration of decimals x renderings, re-parsed by the real parser and the model automaton; every fault point of a failing output sink enumerated (deviation bound 1), then fault-free histories; domain re-explored in a non-default build configuration",
         "every decimal in the digit-length x scale x pattern product through every rendering, parsed back and compared (value, and digits+scale where promised)"),
 "C05": ("exhaustive enumeration of all strings up to a length bound over a fixed alphabet against a deterministic automaton + denotation",
         "every string up to the length bound over the alphabet through all four parser entry points, compared with the model DFA's accept/reject verdict and denotation"),
 "C06": ("bounded-exhaustive enumeration of (decimal, target scale, mode) against integer rounding, in the default and in a non-default build configuration",
         "all decimals with |unscaled| below the bound at scales -3..8 x all targets within 4 of either end x 7 modes, all 4200 digit-pair arguments"),
 "C07": ("bounded-exhaustive enumeration of (decimal, precision, mode, entry point) against integer rounding at the p-th digit",
         "all small-scope decimals x p in 1..digits+5 x 7 modes through every precision-rounding entry point incl. two-operand context sums"),
 "C08": ("bounded-exhaustive enumeration of (dividend, divisor, overload) against rational cross-multiplication; full zero-divisor overload matrix; default and non-default build configuration",
         "all small-scope quotient pairs x sign/scale/ownership forms, boundary sets around the 100-digit precision, every primitive overload, and every division overload with a zero divisor"),
 "C09": ("bounded-exhaustive enumeration of operand pairs x 5 forms against the truncated-division identity",
         "all ordered pairs over a small-scope set and a scale-gap alphabet in both directions, five ownership forms"),
 "C10": ("bounded-exhaustive enumeration of (radicand, precision, mode) against a certified integer square root, incl. model-located delicate roundings; default and non-default build configuration",
         "all small radicands x scales x p x 7 modes plus perfect-square/tie/long-input alphabets; the oracle certifies floor-root, exactness and midpoint position with exact integers"),
 "C11": ("bounded-exhaustive enumeration of (radicand, precision, mode, sign) against a certified integer cube root, incl. model-located delicate roundings; default and non-default build configuration",
         "as C10 for cube roots, both signs, all scale residues mod 3"),
 "C12": ("bounded-exhaustive enumeration of (x, precision, mode) against exact cross-multiplication, sign symmetry and a termination watchdog, in the std build, the no_std build and a non-default build configuration of the subject",
         "all small x, 2^i5^j, bit-length alphabet and long operands x p x 7 modes"),
 "C13": ("exhaustive enumeration of an argument grid (incl. every argument length) against an outward-rounded interval enclosure of e^x, in the default and a non-default build configuration",
         "every argument of the stated grid; result compared with a rigorous enclosure"),
 "C14": ("exhaustive enumeration of float bit patterns (all 2^32 f32 in the thorough tier) against the exact binary value, in the std and the no_std build of the subject",
         "every exponent field x mantissa alphabet (quick) / every f32 (thorough); decimals x exponents for to_f64"),
 "C15": ("bounded-exhaustive enumeration of boundary decimals x conversions against integer truncation",
         "every type limit +- small offsets in every exact representation, small-scope grid, constructors"),
 "C16": ("bounded-exhaustive enumeration of (decimal, precision, format spec) re-read by the model's numeral recogniser; every fault point of a failing output sink enumerated (deviation bound 1); default and non-default build configuration",
         "all small-scope decimals x N x format kinds, padding-limit alphabet, and every flag combination"),
 "C17": ("bounded-exhaustive enumeration of decimals / JSON documents / token streams (incl. in-place refills over previous occupants) through serde against the model denotation, in the default build, the string-only build and a non-default build configuration (scale limit 2000) of the subject",
         "round trips for every decimal of the product, every short JSON document over the numeric alphabet, every integer/float token width"),
 "C18": ("exhaustive enumeration of 10^k, 10^k+-1 for k<=5000 and a small-scope product x every accessor",
         "stored pair returned verbatim, digit counts equal string lengths, normalized form canonical"),
 "C19": ("explicit-state model checking: level-synchronous parallel BFS over accumulator representations with exact state merging; every transition calls a real operator overload",
         "every program up to the depth bound over the operand pool and operation alphabet; invariant (accumulator = shadow exact value, comparisons/hashes agree) evaluated in every reachable state"),
 "C20": ("exhaustive enumeration of build configurations (crate rebuilt per configuration) x small-scope probe",
         "every configuration of the stated lattice is built and probed: default-context operations equal explicit-context ones"),
}
SECTION = {k: "DESIGN.md §3 " + k for k in T}
checks, na = [], []
for pid in sorted(T):
    drv = os.path.join(ROOT, "mc/props/src/bin", pid.lower() + ".rs")
    tech, text = T[pid]
    if os.path.exists(drv):
        checks.append({
            "property_id": pid,
            "quick_cmd": f"./check {pid} quick",
            "thorough_cmd": f"./check {pid} thorough",
            "evidence_file": f"evidence/{pid}.json",
            "replay_cmd_template": f"./check {pid} --replay {{path}}",
            "engine": "mc",
            "level_claimed": {"category": "model_checking",
                              "text": "Bounded-exhaustive exploration of the real implementation: " + text + ". A green run is a coverage statement for exactly the enumerated finite domain (bounds in the evidence file); nothing is sampled and no solver is involved.",
                              "design_ref": SECTION[pid]},
            "level_note": "Trusted: num-bigint basic arithmetic and decimal printing (shared with the subject), std, the ~900-line reference model in mc/spec (guarded by per-call certificates and a conformance suite of the maintainers' documented literals). One build profile (opt-level 2, overflow checks + debug assertions on for the subject); other feature sets / build configurations only where the technique field says so (child explorations, mc/variants). Nothing is claimed outside the stated bounds.",
            "technique": tech,
        })
    else:
        na.append({"property_id": pid, "reason": "driver not built yet in this round (planned: " + tech + ")"})
m = {
 "version": 1,
 "setup_cmd": "./check --setup",
 "hooks": {"guard": "none", "enable": "not needed: every mechanism is reachable through the public API and every state is constructible with BigDecimal::new; checks build /repo's working tree as a path dependency",
           "baseline_off_cmd": BASE, "source_commits": [], "add_only": True},
 "engines": [{"name": "mc", "path": "mc/", "serves_properties": [c["property_id"] for c in checks],
              "kind_free_text": "Rust harness: sharded bounded-exhaustive enumeration of public-API executions of the real crate (path dependency on /repo) against an independent exact-integer reference model; explicit-state BFS over accumulator states for operation sequences (C19); per-configuration rebuilds (C20); the same drivers re-run as child explorations against other builds of the subject (mc/variants: no_std, string-only, a non-default configuration); fault-injecting output sinks (C04, C16)"}],
 "checks": checks,
 "not_applicable": na,
 "notes": "See DESIGN.md. known_findings.json lists genuine defects recorded or fixed; replays/ holds one JSON file per reported violation.",
}
json.dump(m, open(os.path.join(ROOT, "MANIFEST.json"), "w"), indent=1)
print("claimed:", [c["property_id"] for c in checks], "not yet:", [n["property_id"] for n in na])
