#!/usr/bin/env python3
"""Writes benign/<id>/meta.json from result.txt and the cross-matrix log (if present)."""
import json, os, re
root='/verif/benign'
cross={}
if os.path.exists('/verif/benign/cross_matrix.log'):
    for l in open('/verif/benign/cross_matrix.log'):
        p=l.split()
        if p: cross[p[0]]=p[1:]
for d in sorted(os.listdir(root)):
    p=os.path.join(root,d)
    if not os.path.isdir(p): continue
    res=open(os.path.join(p,'result.txt')).read().strip() if os.path.exists(os.path.join(p,'result.txt')) else ''
    own=re.findall(r'(C\d\d):exit=(\d+):violations=(\d+)',res)
    meta={"id":d,"kind":"property-preserving change (false-alarm test)","property":d.split('-')[0],
          "origin":"independent sub-agent given only the property text and a scratch worktree; asked for a legitimate refactoring that keeps the property true but changes something the statement does not constrain",
          "own_property_check":[{"check":c,"exit":int(e),"violation_lines":int(v)} for c,e,v in own],
          "false_alarm_on_own_property": any(int(e)!=0 for _,e,_ in own),
          "other_checks_raising_an_alarm": cross.get(d, None)}
    json.dump(meta,open(os.path.join(p,'meta.json'),'w'),indent=1)
    print(d, res.split(' ',1)[1] if ' ' in res else res, '| cross:', cross.get(d))
