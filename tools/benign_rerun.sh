#!/bin/bash
# benign_rerun.sh <logfile> [extra check ids...] : re-run every stored property-preserving change (benign/<Cxx>-<v>/patch.diff)
# against its own property's check (and the extra checks) in the quick tier on the CURRENT machinery; a non-zero exit
# or a VIOLATION line on such a change is a false alarm.  /repo must be clean; it is restored after every change.
set -u
LOG=$1; shift
EXTRA="$*"
: > $LOG
for D in /verif/benign/C*-A/ /verif/benign/C*-B/; do
  id=$(basename $D); P=${id%%-*}
  [ -f $D/patch.diff ] || continue
  cd /repo; git diff --quiet || { echo "/repo dirty" | tee -a $LOG; exit 2; }
  git apply $D/patch.diff 2>/dev/null || { echo "$id patch does not apply (repo moved on)" | tee -a $LOG; continue; }
  res=""
  for c in $P $EXTRA; do
    (cd /verif && ./check $c quick > /tmp/benign_rerun.out 2> /tmp/benign_rerun.err); rc=$?
    nv=$(grep -c '^VIOLATION' /tmp/benign_rerun.out)
    res="$res $c:exit=$rc:violations=$nv"
    if [ $rc -ne 0 ]; then cp /tmp/benign_rerun.out $D/rerun_$c.out; fi
  done
  git -C /repo checkout -- .
  echo "$id$res" | tee -a $LOG
done
