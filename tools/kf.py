#!/usr/bin/env python3
"""kf.py fixed <prop> <commit> <site> <class> <what failed>   |   kf.py open <id> <prop> <site> <class> '<where json>' <summary> <example>"""
import json, sys
p = '/verif/known_findings.json'
d = json.load(open(p))
if sys.argv[1] == 'fixed':
    _, _, prop, commit, site, cls, what = sys.argv
    n = sum(1 for f in d['findings'] if f['property'] == prop) + 1
    d['findings'].append({"id": f"KF-{prop}-{n}", "property": prop, "status": "fixed", "commit": commit, "site": site, "class": cls,
                          "where": {}, "summary": what, "record": f"fixed: property={prop} {commit} {what}"})
else:
    _, _, fid, prop, site, cls, where, summary, example = sys.argv
    d['findings'].append({"id": fid, "property": prop, "status": "open", "commit": None, "site": site, "class": cls,
                          "where": json.loads(where), "summary": summary, "example": example})
json.dump(d, open(p, 'w'), indent=1)
