#!/usr/bin/env python3
"""Writes the sub-agent briefs for the next round of hard seeds: /tmp/agent<R>-Cxx.txt from the previous round's
brief (/tmp/agent<R-1>-Cxx.txt), with the worktree/output paths renamed and the newest mechanisms for the
property appended to the 'already used' list.  The brief contains the property text and nothing else from /verif."""
import re, sys, importlib.util, io, contextlib
R = int(sys.argv[1]); prev_suffix = sys.argv[2]   # e.g. 5 W
src = open('/verif/tools/seed_meta.py').read()
needs_src = src[src.index('NEEDS = {'):src.index("root = '/verif/seeded'")]
ns = {}; exec(needs_src, ns); NEEDS = ns['NEEDS']
for i in range(1, 21):
    p = 'C%02d' % i
    t = open('/tmp/agent%d-%s.txt' % (R - 1, p)).read()
    t = t.replace('/tmp/w%d-%s' % (R - 1, p), '/tmp/w%d-%s' % (R, p)).replace('/tmp/o%d-%s' % (R - 1, p), '/tmp/o%d-%s' % (R, p))
    extra = NEEDS.get('%s-%s' % (p, prev_suffix))
    if extra:
        marker = '\n\nConstraints on the change:'
        assert marker in t
        t = t.replace(marker, '\n  - ' + extra + marker, 1)
    open('/tmp/agent%d-%s.txt' % (R, p), 'w').write(t)
print('ok')
