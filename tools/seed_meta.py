#!/usr/bin/env python3
"""Writes seeded/<id>/meta.json from verify.json + detect_*.json + the table of manifestation conditions."""
import json, os, glob
NEEDS = {
 "C01-A": "set_scale narrows the scale gap to u8 before the <20 test: owned+owned / owned-owned / by-value sum with a scale gap g >= 256 and g mod 256 < 20 (256..275, 512..531, ...)",
 "C01-B": "AddAssign<primitive> fast path taken for scale <= 0: an owned decimal with strictly negative scale (5e3) plus a non-zero primitive through +=, V+T or T+V",
 "C02-A": "== fast-path threshold `< 20` -> `<= 20`: same-sign operands whose scales differ by exactly 20 (10^20 does not fit u64): panic in debug, wrong answer in release, cmp unaffected",
 "C02-B": "cmp ignores the first digit past the shorter operand: both aligned magnitudes >= 2^128, different scales, longer integer = shorter digits + one non-zero digit + zeros",
 "C03-A": "zero with a negative scale hashes '0' plus |scale| zeros",
 "C03-B": "negative-scale branch feeds the Hasher in several write() calls: only a split-sensitive Hasher (Fx style) or a recording Hasher sees it; SipHash unchanged",
 "C04-A": "negative value with exactly one coefficient digit in exponent form ({:e}, {:E}, Display with >5 leading zeros) loses its sign",
 "C04-B": "to_plain_string/write_plain_string of a pure fraction whose digit count exceeds leading zeros + 2 (overlapping copy)",
 "C05-A": "numeral whose scale is exactly i64::MIN (exp - fraction digits == 2^63) rejected",
 "C05-B": "leading-dot fast path counts '_' as fraction digits: '.5_' parsed as 0.05 (base part starts with '.', no sign, underscore later in the fraction)",
 "C06-A": "rounding point two or more places left of the leading digit under a Half* mode with leading digit >= 5 (0.007 to scale 1 HalfUp = 0.1)",
 "C06-B": "round_pair(Ceiling, NoSign, inexact pair): 190 of the 4200 arguments of the public primitive",
 "C07-A": "Context::round_decimal_ref / round_with_context truncate to p+3 digits before rounding: inputs with >= p+4 digits whose digits p+1..p+3 are 500 or 000 followed by a non-zero digit",
 "C07-B": "Context::add_refs(_into) with a negative operand lying more than two places below the rounding position and the other operand exactly representable or an exact tie",
 "C08-A": "exact ties at the (P+1)th digit rounded toward zero: terminating quotient with exactly 101 significant digits (e.g. 3/2^143) or >=100 integer digits followed by .5",
 "C08-B": "0 / 0 through the `owned / &ref` overload only returns 0 instead of panicking",
 "C09-A": "&a % &b shortcut when a.scale > b.scale, gap in {3,6,..,27,30,31,33,..} or >= 57 and a's integer in [|b|*10^gap, 2^floor(10*gap/3))",
 "C09-B": "owned % &ref with a.scale > b.scale, negative divisor and non-zero remainder: remainder takes the quotient's sign",
 "C10-A": "u64/f64 fast path for the integer root: precision <= 5 and a shifted operand in [2^52, 2^64) equal to a perfect square minus a small amount",
 "C10-B": "sqrt_copysign_with_context of a negative input under Floor or Ceiling with an inexact root (sign applied before the final rounding)",
 "C11-A": "needs_trailing_zeros treats Floor like Down: negative perfect cubes under Floor (cbrt(-8) = -2.0001)",
 "C11-B": "stale padding flag: coefficient with >= 3*(p+4) digits and scale not divisible by 3 (>= 312 digits at the default precision)",
 "C12-A": "power-of-ten shortcut drops the sign: negative x whose stored mantissa is exactly -1 (-1, -0.1, -1e7)",
 "C12-B": "divisor clipped to p+2 digits: x with more than p+2 significant digits whose reciprocal sits next to a directed-rounding boundary (1/5^13 at p=4 Up)",
 "C13-A": "argument stored with a negative scale (1e1, 12e1): result off by 10^k - 1",
 "C13-B": "series capped at 1000 terms: |x| above ~471",
 "C14-A": "f64 in the single binade [2^128, 2^129): top bit shifted out of a u128",
 "C14-B": "to_f64 fast path n as f64 / 10^scale without the n < 2^53 check: 54..64-bit unscaled integer with scale 1..22 (round trip of large non-integers breaks by one ulp)",
 "C15-A": "early-overflow guard off by one: stored scale exactly -(max_digits-1) with a small unscaled value (1e18..9e18 for i64, 1e19 u64, 1e38 i128/u128)",
 "C15-B": "is_integer shortcut forgets zero: zero with scale >= 2 reported as non-integer",
 "C16-A": "{:.N} of an integer whose padding equals the documented limit (1000) exactly is printed unpadded",
 "C16-B": "{:.N} of |value| = 5*10^-(N+1) exactly (tie directly in front of the first significant digit) rounds up under HalfEven/HalfDown",
 "C17-A": "json_num scale limit only enforced for positive exponents: 1e-150001 accepted",
 "C17-B": "same f64 binade defect as C14-A reached through serde F64 tokens",
 "C18-A": "digit count estimate with an integer log approximation and a single correction: values with >= 206 digits at specific bit lengths (10^205 first)",
 "C18-B": "normalized() bounds the trailing-zero scan by the low 64-bit limb: 65 or more trailing zero digits are not all stripped",
 "C19-A": "a zero carrying a scale (produced by x - x or x * 0.000) followed by += / owned + / primitive + with a non-zero primitive integer",
 "C19-B": "a one written with trailing zeros (0.5 + 0.5) followed by the owned BigInt * BigDecimal overload",
 "C20-A": "{:.N} of a value below 10^-(N+1) prints 0 without asking the mode: visible only when the build's default rounding mode is Up, Ceiling (positive) or Floor (negative)",
 "C20-B": "division produces one extra digit: visible when the first integer quotient already fills the configured precision (every inexact quotient at RUST_BIGDECIMAL_DEFAULT_PRECISION=1)",
}

NEEDS.update({
 "C01-H": "normalized() rewritten by counting factors of 2 and 5: wrong when v5 >= 54 and 1 <= v2 < 27*(floor(v5/27)-1) (N even, divisible by 5^54, >= 38 digits); reached through &one * &x, &x * &BigInt(1), ...",
 "C02-H": "word-wise == forgets a carry left after the last word: A + 2^(32n) == B*10^k exactly, scale gap k in {2,3,5,6,9} (e.g. 2.705032704 == 7)",
 "C03-H": "Hash streams digits through a 256-byte block and assumes its tail is '0': int_val longer than 256 characters (not a multiple of 256) with a negative scale",
 "C04-H": "divide-and-conquer digit conversion above 4096 bits skips an all-zero upper half of an interior block: >= 1234 digits with an aligned zero run above non-zero digits (10^2000 + 1)",
 "C05-H": "8-bytes-at-a-time digit test checks only the high nibble: ':;<=>?' accepted inside an 8-byte block of a short numeral ('12:34:56')",
 "C06-H": "chunked all-zero scan of the discarded digits skips the top (L mod 8) digits when L >= 9 and L mod 8 != 0 (1.5100000000 HalfDown)",
 "C07-H": "context-aware sum replaces low digits of the finer operand by a sticky digit assuming no cancellation: operands of opposite sign agreeing in 38+ leading digits (x + (-1) with x = 1.000...04567)",
 "C08-H": "numerator cut to den_digits+120 leading digits without a sticky digit: odd divisor > 64 bits, numerator >= 2*(den_digits+120) digits, remainder exactly (den-1)/2 and discarded tail >= 1/2",
 "C09-H": "&a % &b shortcut with a fixed-point log10(2) digit bound that is one short at 1651 bits: scale gap D in {497, 643, 848, ...}, a = 10^D + small, b = +-1",
 "C10-H": "over-long radicands: the dropped tail is tested for zero with BINARY trailing zeros: > 2(p+5)+19 digits, perfect-square head on a rounding boundary, tail = even digit followed by zeros",
 "C11-H": "same binary/decimal trailing-zero confusion in cbrt: coefficient >= 6p+24 digits, perfect-cube head, dropped tail divisible by 2^drop ((2e10)^3 + 2^15)",
 "C12-H": "divisor truncated to 308 digits when beyond f64 range: magnitude >= 2^1024 together with a requested precision >= 308",
 "C13-H": "series termination compares digits but not scale: argument matching, to ~103 significant digits, an irrational root of x^(n+1)/(n+1)! = (10^k-1)*S_n(x) (28.9310242177754...)",
 "C14-H": "u64 product shortcut in f64 -> decimal guarded by u32 instead of 24 bits: odd numerator in [2^24, 2^32) over 2^14..2^17 (200.00000762939453125)",
 "C15-H": "with_scale truncation computed as (n >> k) / 5^k: negative values with scale >= 20 whose fraction starts with >= 14 nines (to_bigint(-7.99999999999999999999873) = -8)",
 "C16-H": "{:.N} on decimals with >= 1024 digits and scale >= N+1040 truncates before rounding (double rounding): tie digits followed by a far-away non-zero digit",
 "C17-H": "fraction digits accumulated in a u128 with an off-by-one room check: 39+ fraction digits spelling 2^128 .. 2^128+3",
 "C18-H": "digit count from an integer approximation of log10(2) with 9 decimals: wrong for 10^8651 <= |n| < 2^28738 only (below 10^10000)",
 "C19-H": "set_scale narrows the gap to u8 before the range test: owned+owned / owned-owned with a scale gap in 256..275 (reached in a program only through operands carrying such scales)",
 "C01-W": "hand-written One::is_one looks at the low 64-bit word of the coefficient only: multiplication by an operand 10^s + m*2^64*... whose low word equals that of 10^scale (product returned as the other operand)",
 "C02-W": "bit-length pre-test of the scaled comparison uses a 2.30 fixed-point log2(10) rounded up: first wrong at scale gap 97879 (10^gap just below a power of two) with a power-of-two coefficient against its value-equal twin",
 "C03-W": "hash_slice override shares the zero-padding scratch string between elements: a slice / Vec holding two decimals with different negative scales hashes differently from the element-wise hashes",
 "C04-W": "divide-and-conquer digit parse of texts >= 2048 bytes takes the sign from the parsed upper half: negative value whose plain rendering starts with >= 1024 zeros (scale >= 2046, short coefficient) parses back positive",
 "C05-W": "exponent-overflow error message quotes the last 64 BYTES of inputs longer than 64 bytes: panic when that offset falls inside a multi-byte character",
 "C06-W": "machine-word fast path of with_scale_round casts the scale distance to u32: distance >= 2^32 with a coefficient below 2^64 rounds at the wrong place",
 "C07-W": "i128 fast path of with_prec adds the half before dividing: coefficients within 5*10^k of +-2^127 overflow (panic or wrong digit)",
 "C08-W": "digit count of the integer quotient through f64 log10: quotients of the form 10^k - d with k >= 16 counted one digit long, result has 99 digits / wrong rounding position",
 "C09-W": "i128 fast path in &a % &b on aligned operands: i128::MIN % -1 overflows (panic)",
 "C10-W": "Karatsuba-style integer root above 256 bits decides exactness with a bitwise OR that drops a term: radicands 2^n - 1 and neighbours flagged exact / root one low",
 "C11-W": "staged cube root above 8192 bits: near-cubes needing more than one correction step, only reachable with >= 2467-digit operands or precision >= 819",
 "C12-W": "reciprocal's new first guess reduces the divisor 19 digits at a time and the iteration is capped: divisors 19...9 whose length is 1 mod 19 converge to a wrong last digit",
 "C14-W": "to_f64 estimates the digit count as bits*19/64 (under-estimate): decimals with >= 1913 digits return None / a wrong float",
 "C15-W": "'all digits dropped' shortcut from a 1233/4096 digit-count bound: integers written with >= 205 fraction zeros (1.000...0) convert to 0",
 "C16-W": "word-at-a-time count of trailing nines forgets the words already counted: {:.N} carry through a run of >= 8 nines ending at a word boundary",
 "C17-W": "19-digit-word parser slices at byte offsets counted from the end: a multi-byte character straddling such an offset in a string token of more than 19 bytes panics",
 "C13-W": "negative arguments summed directly when a digit budget computed from the STORED digit count allows it, while the series works on the normalised argument: x <= -25 written with >= 12 trailing zeros (-30.00000000000000000)",
 "C18-W": "with_scale extension shortcut multiplies in i128: coefficient in [2^127/10^19, 2^64) extended by exactly 19 digits overflows (panic in debug, wrong sign and value in release)",
 "C19-W": "bit-length pre-test of the comparison uses log2(10) = 3.32193 (rounded up): after the accumulator has gathered a scale gap of 643 (1140, 1286, ...) against a power-of-two coefficient, == and cmp say Less for equal / greater values",
 "C20-W": "u64 fast path of division for configured precision <= 38 rounds with the wrong digit budget: only builds with RUST_BIGDECIMAL_DEFAULT_PRECISION <= 38, small operands, quotient digits beyond the precision",
 "C20-H": "division truncates remainder and denominator when the denominator has more than P+20 digits: exact-tie quotients produced by the digit loop come out one unit low (1.25 at precision 2 with 25-digit operands)",
})
root = '/verif/seeded'
rows = []
for d in sorted(os.listdir(root)):
    p = os.path.join(root, d)
    if not os.path.isdir(p): continue
    ver = json.load(open(os.path.join(p, 'verify.json'))) if os.path.exists(os.path.join(p, 'verify.json')) else {}
    det = {}
    for f in glob.glob(os.path.join(p, 'detect_*.json')):
        j = json.load(open(f)); det[j['tier']] = {"detected": j['detected'], "exit_code": j['exit_code'], "violation_lines": j['violation_lines'], "first_violation": j['first_violation'].strip()[:300]}
    meta = {
        "id": d, "breaks_property": d.split('-')[0], "origin": "independent sub-agent given only the property text and a scratch worktree" + (" (second wave: asked for changes designed to escape small-scope and constant-boundary enumeration)" if d.endswith("-H") else " (second hard round: same brief as the -H round plus the list of mechanisms already used for this property, asked for a different site and a different mechanism)" if d.endswith("-W") else ""),
        "needs_to_manifest": NEEDS.get(d, ""),
        "confirmed_in_scratch_worktree": ver,
        "what_i_ran": ["tools/seed_ingest.sh (patch applies to /repo HEAD, repo suite with patch, demo with/without patch)", "tools/seed_run.sh <id> <tier> (git apply to /repo, ./check <prop> <tier>, git checkout -- .)"],
        "detection": det,
    }
    json.dump(meta, open(os.path.join(p, 'meta.json'), 'w'), indent=1)
    rows.append((d, ver.get('repo_suite_with_patch'), ver.get('demo_with_patch'), ver.get('demo_without_patch'), det.get('quick', {}).get('detected'), det.get('thorough', {}).get('detected')))
print("%-7s %-6s %-9s %-12s %-6s %-8s" % ("seed", "suite", "demo+", "demo-", "quick", "thorough"))
for r in rows: print("%-7s %-6s %-9s %-12s %-6s %-8s" % r)
