#!/usr/bin/env python3
"""Independent expectations for the reference model (mc/spec), computed with Python's `decimal` module
(libmpdec, a C implementation unrelated to num-bigint, to the model and to the subject), `fractions` and
`struct`.  Output: mc/spec/src/vectors.txt, one '|'-separated record per line; `spec::vectors::run()` replays
every record through the MODEL at the start of every driver (a mismatch is a machinery error, never a verdict).

  S|n|s|t|mode|n'            round_to_scale: value n*10^-s at scale t      (Decimal.quantize)
  P|n|s|p|mode|n'|s'         round_to_prec                                 (context.plus)
  D|an|as|bn|bs|p|mode|n'|s' div_rounded                                   (context.divide)
  R|k|n|s|p|mode|n'|s'       root_rounded, k = 2 (Decimal.sqrt at 220 digits, re-rounded) / 3 (power 1/3 at 220)
  E|n|s|n'|s'                e^x to 130 digits (Decimal.exp, correctly rounded): must lie in exp_bounds
  F|width|bits|n'|s'         exact value of the float with these bits      (Decimal(float))
  C|n1|s1|n2|s2|ord          cmp_val (-1/0/1)                              (Fraction comparison)

Run:  python3 tools/gen_model_vectors.py   (deterministic; the file is committed)."""
import decimal, struct, sys
from decimal import Decimal as D
from fractions import Fraction

MODES = {"Up": decimal.ROUND_UP, "Down": decimal.ROUND_DOWN, "Ceiling": decimal.ROUND_CEILING, "Floor": decimal.ROUND_FLOOR,
         "HalfUp": decimal.ROUND_HALF_UP, "HalfDown": decimal.ROUND_HALF_DOWN, "HalfEven": decimal.ROUND_HALF_EVEN}
BIG = decimal.Context(prec=5000, Emax=decimal.MAX_EMAX, Emin=decimal.MIN_EMIN)
out = []

def lcg(seed):
    x = seed
    while True:
        x = (x * 6364136223846793005 + 1442695040888963407) % (1 << 64)
        yield x >> 11

def dec_of(n, s):
    return BIG.scaleb(D(n), -s)

def ns_of(d):
    sign, digits, exp = d.as_tuple()
    n = int("".join(map(str, digits))) if digits else 0
    return (-n if sign else n), -exp

def ints():
    g = lcg(20260927)
    v = [0, 1, -1, 5, -5, 14, 15, 16, 25, -25, 35, 45, 49, 50, 51, 95, 99, 100, 101, 149, 150, 151, 249, 250, 251, 995, 999, 1005, 12345, -12355, 99995, 99949]
    for l in (1, 2, 3, 7, 19, 20, 21, 38, 39, 40, 60):
        v += [int("9" * l), int("1" + "0" * (l - 1)) if l > 1 else 1, int("4" + "9" * (l - 1)), int("5" + "0" * (l - 1)), -int("5" + "0" * (l - 1)) - 1 if l > 1 else -6]
    for e in (31, 32, 63, 64, 127, 128):
        v += [(1 << e) - 1, 1 << e, (1 << e) + 1, -(1 << e)]
    for _ in range(60):
        k = next(g) % 45 + 1
        v.append((next(g) * next(g) * next(g)) % (10 ** k) * (1 if next(g) % 2 else -1))
    return v

NUMS = ints()

# S: round_to_scale
g = lcg(1)
for i, n in enumerate(NUMS):
    for s in (0, 1, 3, 7, -2):
        for t in sorted({s - 1, s - 2, s - 3, s - len(str(abs(n))), s - len(str(abs(n))) - 1, s + 2}):
            for name, rm in MODES.items():
                if (i + s + t + len(name)) % 3:
                    continue
                q = dec_of(n, s).quantize(D(1).scaleb(-t), rounding=rm, context=BIG)
                nn, ss = ns_of(q)
                assert ss == t, (n, s, t, q)
                out.append("S|%d|%d|%d|%s|%d" % (n, s, t, name, nn))

# P: round_to_prec
for i, n in enumerate(NUMS):
    if n == 0:
        continue
    L = len(str(abs(n)))
    for s in (0, 4, -3):
        for p in sorted({1, 2, 3, L - 1, L, L + 1, 16, 34} - {0, -1}):
            for name, rm in MODES.items():
                if (i + s + p + len(name)) % 4:
                    continue
                c = decimal.Context(prec=p, rounding=rm, Emax=decimal.MAX_EMAX, Emin=decimal.MIN_EMIN)
                r = c.plus(dec_of(n, s))
                nn, ss = ns_of(r)
                out.append("P|%d|%d|%d|%s|%d|%d" % (n, s, p, name, nn, ss))

# D: div_rounded
dens = [1, 2, 3, 7, 8, 11, 125, 999983, (1 << 64) + 1, 10 ** 19 + 7, 12345678901234567890123, -3, -7, 998, 6]
for i, a in enumerate(NUMS):
    if a == 0:
        continue
    for j, b in enumerate(dens):
        for p in (1, 2, 3, 16, 34, 100):
            for name, rm in MODES.items():
                if (i * 7 + j * 3 + p + len(name)) % 11:
                    continue
                c = decimal.Context(prec=p, rounding=rm, Emax=decimal.MAX_EMAX, Emin=decimal.MIN_EMIN)
                r = c.divide(dec_of(a, 3), dec_of(b, -1))
                nn, ss = ns_of(r)
                out.append("D|%d|%d|%d|%d|%d|%s|%d|%d" % (a, 3, b, -1, p, name, nn, ss))

# R: roots.  High-precision value first (220 digits), then re-rounded to p digits under the mode; vectors whose
# digits beyond p in the 220-digit value are within a hair of a rounding boundary (or exact) are decided only
# when the 220-digit computation was exact; otherwise skipped.
HP = 220
def root_vec(k, n, s, p, name, rm):
    c = decimal.Context(prec=HP, rounding=decimal.ROUND_HALF_EVEN, Emax=decimal.MAX_EMAX, Emin=decimal.MIN_EMIN)
    x = dec_of(abs(n), s)
    c.clear_flags()
    if k == 2:
        if n < 0:
            return
        r = c.sqrt(x)
        exact = not c.flags[decimal.Inexact]
    else:
        r = c.power(x, c.divide(D(1), D(3)))
        # power is not guaranteed exact-aware: decide exactness by cubing a p+3 digit candidate
        cand = decimal.Context(prec=60, rounding=decimal.ROUND_HALF_EVEN).plus(r)
        exact = BIG.multiply(BIG.multiply(cand, cand), cand) == x
        if exact:
            r = cand
        if n < 0:
            r = -r
    if not exact:
        digs = r.as_tuple().digits
        tail = digs[p:HP - 3]
        if len(set(tail)) <= 1 or (tail[0] in (4, 5) and len(set(tail[1:])) <= 1):
            return  # too close to a boundary to be decided from 220 digits
    cp = decimal.Context(prec=p, rounding=rm, Emax=decimal.MAX_EMAX, Emin=decimal.MIN_EMIN)
    rr = cp.plus(r)
    nn, ss = ns_of(rr)
    out.append("R|%d|%d|%d|%d|%s|%d|%d" % (k, n, s, p, name, nn, ss))

rad = [2, 3, 5, 10, 16, 25, 27, 64, 99, 100, 101, 121, 125, 1000, 1024, 1331, 4096, 999999, 10 ** 20, 10 ** 21, (1 << 64) - 1, (1 << 64), 15241578750190521, 1881365963625, 2 * 10 ** 40 + 1]
rad += [abs(v) for v in NUMS[-40:] if v]
for i, n in enumerate(rad):
    for s in (0, 1, 2, 3, -1, -3, 7):
        for p in (1, 2, 3, 5, 16, 34, 50):
            for name, rm in MODES.items():
                if (i + s + p + len(name)) % 5:
                    continue
                root_vec(2, n, s, p, name, rm)
                root_vec(3, n if (i + p) % 2 else -n, s, p, name, rm)

# E: exp
ce = decimal.Context(prec=130, rounding=decimal.ROUND_HALF_EVEN, Emax=decimal.MAX_EMAX, Emin=decimal.MIN_EMIN)
for (n, s) in [(1, 0), (-1, 0), (2, 0), (10, 0), (-10, 0), (100, 0), (-100, 0), (5, 1), (-5, 1), (1, 3), (-1, 30), (1, 60), (230258509299, 11), (-230258509299, 11),
               (69314718056, 11), (123456789, 4), (-987654321, 5), (1000, 0), (-1000, 0), (99999, 2), (-7777, 1), (3, -1), (12, -1), (-28931024217775425682, 18), (471, 0), (-471, 0)]:
    r = ce.exp(dec_of(n, s))
    nn, ss = ns_of(r)
    out.append("E|%d|%d|%d|%d" % (n, s, nn, ss))

# F: floats
g = lcg(7)
bits64 = [0, 1, 2, 0x000fffffffffffff, 0x0010000000000000, 0x0010000000000001, 0x3ff0000000000000, 0x3ff0000000000001, 0x3fb999999999999a, 0x7fefffffffffffff, 0x4340000000000000, 0x4330000000000001,
          0x3690000020000000, 0x36a8000000000000, 0x0008000000000000, 0x8000000000000000, 0xbff8000000000000]
for _ in range(60):
    b = (next(g) << 11 | next(g) % 2048) % (1 << 64)
    if (b >> 52) & 0x7ff != 0x7ff:
        bits64.append(b)
for b in bits64:
    f = struct.unpack(">d", struct.pack(">Q", b))[0]
    nn, ss = ns_of(D(f))
    out.append("F|64|%d|%d|%d" % (b, nn, ss))
bits32 = [0, 1, 2, 0x007fffff, 0x00800000, 0x00800001, 0x3f800000, 0x3f800001, 0x3dcccccd, 0x7f7fffff, 0x4b000000, 0x80000000, 0xbfc00000, 0x00400000]
for _ in range(40):
    b = next(g) % (1 << 32)
    if (b >> 23) & 0xff != 0xff:
        bits32.append(b)
for b in bits32:
    f = struct.unpack(">f", struct.pack(">I", b))[0]
    nn, ss = ns_of(D(f))
    out.append("F|32|%d|%d|%d" % (b, nn, ss))

# C: cmp_val
g = lcg(3)
pairs = []
for i, a in enumerate(NUMS):
    b = NUMS[(i * 7 + 3) % len(NUMS)]
    for (s1, s2) in ((0, 0), (0, 3), (5, 0), (-2, 2), (25, 0), (0, 21)):
        pairs.append((a, s1, b, s2))
        pairs.append((a, s1, a * 10 ** max(s2 - s1, 0), s1 + max(s2 - s1, 0)))
        pairs.append((a, s1, a * 10 ** max(s2 - s1, 0) + 1, s1 + max(s2 - s1, 0)))
for (a, s1, b, s2) in pairs:
    fa, fb = Fraction(a) / Fraction(10) ** s1, Fraction(b) / Fraction(10) ** s2
    out.append("C|%d|%d|%d|%d|%d" % (a, s1, b, s2, (fa > fb) - (fa < fb)))

path = "/verif/mc/spec/src/vectors.txt"
open(path, "w").write("\n".join(out) + "\n")
from collections import Counter
print(len(out), dict(Counter(l[0] for l in out)))
