#!/bin/bash
# seed_run.sh <dir under /verif/seeded> [tier] : apply the seeded patch to /repo, run the property's check,
# revert, record detection in detect.json
set -u
D=/verif/seeded/$1; T=${2:-quick}
# SEED_VERIF (default /verif): the check tree to run, e.g. an older snapshot; SEED_TAG: suffix for the result files
V=${SEED_VERIF:-/verif}; TAG=${SEED_TAG:-}
P=$(echo $1 | cut -d- -f1)
cd /repo || exit 2
if ! git diff --quiet; then echo "/repo is dirty"; exit 2; fi
git apply $D/patch.diff || { echo "patch does not apply"; exit 2; }
cd $V; ./check $P $T > $D/check_$T$TAG.out 2> $D/check_$T$TAG.err; rc=$?
# with the patch still applied: every replay file named by a VIOLATION line must reproduce without the explorer
rp_total=0; rp_ok=0
for f in $(grep '^VIOLATION' $D/check_$T$TAG.out | sed -n 's/.*replay=\([^ ]*\).*/\1/p' | sort -u | head -5); do
  rp_total=$((rp_total+1))
  (cd $V && ./check $P --replay $f > $D/replay_$T$TAG.out 2>&1); rrc=$?
  if [ $rrc -eq 1 ] && grep -q '^VIOLATION' $D/replay_$T$TAG.out; then rp_ok=$((rp_ok+1)); fi
done
git -C /repo checkout -- . 
nv=$(grep -c '^VIOLATION' $D/check_$T$TAG.out)
first=$(grep -m1 -A1 '^VIOLATION' $D/check_$T$TAG.out | tail -1 | cut -c1-400)
python3 - "$D" "$T$TAG" "$rc" "$nv" "$first" "$rp_total" "$rp_ok" <<'PY'
import json,sys
d,t,rc,nv,first,rpt,rpo=sys.argv[1:]
json.dump({"tier":t,"exit_code":int(rc),"violation_lines":int(nv),"detected":int(rc)==1 and int(nv)>0,"first_violation":first,"replays_tried":int(rpt),"replays_reproduced":int(rpo)},open(f"{d}/detect_{t}.json","w"),indent=1)
print(open(f"{d}/detect_{t}.json").read())
PY
