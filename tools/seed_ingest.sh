#!/bin/bash
# seed_ingest.sh <Cxx> <A|B> : copy an agent's seeded change into /verif/seeded/<Cxx>-<A|B>/ and verify it
# in a scratch worktree of /repo HEAD: patch applies, repo suite passes with it, demo fails with it and
# passes without it.  Writes verify.json next to the patch.
# SEED_DEMO_FLAGS (e.g. --features serde-json) and SEED_DEMO_ENV (e.g. RUST_BIGDECIMAL_DEFAULT_PRECISION=1) apply to the demo runs only.
set -u
P=$1; V=$2
SRC=${SEED_SRC:-/tmp/out-$P}
DST=/verif/seeded/$P-${3:-$V}
mkdir -p $DST
cp $SRC/$V.diff $DST/patch.diff || exit 1
cp $SRC/demo_$V.rs $DST/demo.rs || exit 1
[ -f $SRC/REPORT.md ] && cp $SRC/REPORT.md $DST/agent_report.md
WT=/tmp/verify-$P-${3:-$V}
rm -rf $WT; git -C /repo worktree prune; git -C /repo worktree add -q --detach $WT HEAD || exit 1
export CARGO_TARGET_DIR=/tmp/verify-target   # shared: one cold build only
cd $WT
res() { echo "$1" ; }
applies=false; suite=unknown; demo_with=unknown; demo_without=unknown
if git apply --check $DST/patch.diff 2>/dev/null; then applies=true; fi
if $applies; then
  mkdir -p tests; cp $DST/demo.rs tests/seed_demo.rs
  if timeout 900 env ${SEED_DEMO_ENV:-} cargo test --offline ${SEED_DEMO_FLAGS:-} --test seed_demo >/tmp/verify-$P-$V.without.log 2>&1; then demo_without=pass; else demo_without=fail; fi
  git apply $DST/patch.diff
  if timeout 900 env ${SEED_DEMO_ENV:-} cargo test --offline ${SEED_DEMO_FLAGS:-} --test seed_demo >/tmp/verify-$P-$V.with.log 2>&1; then demo_with=pass; else demo_with=fail; fi
  rm -rf tests
  if timeout 1500 cargo nextest run --workspace --no-fail-fast --test-threads 8 --offline >/tmp/verify-$P-$V.suite.log 2>&1; then suite=pass; else suite=fail; fi
  tail -3 /tmp/verify-$P-$V.suite.log | grep -o "[0-9]* passed.*" > $DST/suite_summary.txt
fi
cd /; git -C /repo worktree remove --force $WT
head=$(git -C /repo rev-parse --short HEAD)
cat > $DST/verify.json <<J
{"property": "$P", "variant": "${3:-$V}", "repo_head": "$head", "patch_applies": $applies, "repo_suite_with_patch": "$suite", "demo_with_patch": "$demo_with", "demo_without_patch": "$demo_without", "demo_flags": "${SEED_DEMO_FLAGS:-}", "demo_env": "${SEED_DEMO_ENV:-}"}
J
cat $DST/verify.json
